//! ffv - property-based checks of a4lg/ffuzzy (see /verif/DESIGN.md)
//!
//!   ffv check <ID> --tier quick|thorough      run all sub-checks of one property
//!   ffv replay <ID> <file>                    re-execute one saved case
//!   ffv list                                  list properties and sub-checks
//!
//! exit 0: held on everything explored; exit 1: VIOLATION (line printed); exit 2: the harness
//! itself failed (build / calibration / harness panic) - not a verdict.

#[macro_use]
mod engine;
mod api;
mod calib;
mod checks;
mod gens;
mod segs;

use engine::{Ctx, Failure, SubResult, Tier, PROFILE};
use serde_json::{json, Map, Value};
use std::collections::BTreeMap;
use std::path::{Path, PathBuf};
use std::time::Instant;

fn verif_root() -> PathBuf {
    std::env::var("VERIF_ROOT")
        .map(PathBuf::from)
        .unwrap_or_else(|_| PathBuf::from("/verif"))
}

fn seed_from_env() -> u64 {
    std::env::var("VERIF_SEED")
        .ok()
        .and_then(|s| s.trim().parse::<i128>().ok())
        .map(|v| v as u64)
        .unwrap_or(0)
}

fn summarize(r: &SubResult) -> Value {
    let mut m = Map::new();
    m.insert("name".into(), json!(r.name));
    m.insert("profile".into(), json!(PROFILE));
    m.insert("evaluations".into(), json!(r.stats.evaluations));
    m.insert("distinct_nontrivial".into(), json!(r.stats.distinct_nontrivial()));
    m.insert("rule".into(), json!(r.rule));
    m.insert("exhaustive".into(), json!(r.exhaustive));
    m.insert("wall_s".into(), json!((r.wall_s * 1000.0).round() / 1000.0));
    m.insert("classes".into(), json!(r.stats.classes));
    m.insert("samples".into(), json!(r.samples));
    for (k, v) in &r.extra {
        m.insert(k.clone(), v.clone());
    }
    Value::Object(m)
}

struct Known {
    entries: Vec<Value>,
}

fn load_known() -> Known {
    let p = verif_root().join("known_findings.json");
    let entries = std::fs::read_to_string(&p)
        .ok()
        .and_then(|s| serde_json::from_str::<Value>(&s).ok())
        .and_then(|v| v.get("findings").and_then(|f| f.as_array().cloned()))
        .unwrap_or_default();
    Known { entries }
}

fn write_replay(prop: &str, f: &Failure, source: &str) -> PathBuf {
    let dir = verif_root().join("evidence").join("replay");
    let _ = std::fs::create_dir_all(&dir);
    let body = json!({
        "property": prop,
        "subcheck": f.subcheck,
        "profile": PROFILE,
        "message": f.message,
        "source": source,
        "case": f.case,
    });
    let text = serde_json::to_string_pretty(&body).unwrap();
    let h = oracle::fingerprint(text.as_bytes());
    let path = dir.join(format!("{}-{:016x}.json", prop, h));
    let _ = std::fs::write(&path, text);
    path
}

fn usage() -> ! {
    eprintln!("usage: ffv check <ID> --tier quick|thorough [--secondary <out.json>] | ffv replay <ID> <file> | ffv list");
    std::process::exit(2);
}

fn main() {
    engine::install_panic_hook();
    let args: Vec<String> = std::env::args().collect();
    if args.len() < 2 {
        usage();
    }
    match args[1].as_str() {
        "list" => {
            for p in checks::ALL {
                let subs = checks::subchecks(p, Tier::Quick);
                println!("{}: {}", p, subs.iter().map(|s| s.name).collect::<Vec<_>>().join(" "));
            }
        }
        "check" => {
            if args.len() < 3 {
                usage();
            }
            let prop = checks::ALL
                .iter()
                .copied()
                .find(|p| *p == args[2])
                .unwrap_or_else(|| {
                    eprintln!("unknown property {}", args[2]);
                    std::process::exit(2)
                });
            let mut tier = match std::env::var("VERIF_TIER").as_deref() {
                Ok("thorough") => Tier::Thorough,
                _ => Tier::Quick,
            };
            let mut secondary: Option<String> = None;
            let mut only: Option<String> = None;
            let mut i = 3;
            while i < args.len() {
                match args[i].as_str() {
                    "--tier" => {
                        i += 1;
                        tier = match args.get(i).map(|s| s.as_str()) {
                            Some("quick") => Tier::Quick,
                            Some("thorough") => Tier::Thorough,
                            _ => usage(),
                        };
                    }
                    "--secondary" => {
                        i += 1;
                        secondary = args.get(i).cloned();
                    }
                    "--only" => {
                        i += 1;
                        only = args.get(i).cloned();
                    }
                    _ => usage(),
                }
                i += 1;
            }
            // watchdog: a hang (e.g. a library change that loops forever) is not a verdict
            let limit = std::env::var("FFV_WATCHDOG_S").ok().and_then(|s| s.parse::<u64>().ok()).unwrap_or(match tier {
                Tier::Quick => 1800,
                Tier::Thorough => 8 * 3600,
            });
            std::thread::spawn(move || {
                std::thread::sleep(std::time::Duration::from_secs(limit));
                eprintln!("WATCHDOG: {} did not finish within {} s - inconclusive (exit 2), not a violation", prop, limit);
                std::process::exit(2);
            });
            std::process::exit(run_check(prop, tier, secondary, only));
        }
        "replay" => {
            if args.len() < 4 {
                usage();
            }
            std::process::exit(run_replay(&args[2], Path::new(&args[3])));
        }
        _ => usage(),
    }
}

fn run_replay(prop: &str, file: &Path) -> i32 {
    let text = match std::fs::read_to_string(file) {
        Ok(t) => t,
        Err(e) => {
            eprintln!("cannot read {}: {}", file.display(), e);
            return 2;
        }
    };
    let v: Value = match serde_json::from_str(&text) {
        Ok(v) => v,
        Err(e) => {
            eprintln!("cannot parse {}: {}", file.display(), e);
            return 2;
        }
    };
    let sub = v["subcheck"].as_str().unwrap_or("");
    if let Some(p) = v["profile"].as_str() {
        if p != PROFILE && std::env::var("FFV_NO_REDIRECT").is_err() {
            // re-execute under the profile that found it, when that binary exists
            let exe = verif_root().join("target").join(p).join("ffv");
            if exe.exists() {
                let st = std::process::Command::new(exe)
                    .args(["replay", prop, &file.display().to_string()])
                    .env("FFV_NO_REDIRECT", "1")
                    .status();
                if let Ok(st) = st {
                    return st.code().unwrap_or(2);
                }
            }
        }
    }
    for tier in [Tier::Quick, Tier::Thorough] {
        for s in checks::subchecks(prop, tier) {
            if s.name == sub {
                return match engine::lib(|| (s.replay)(&v["case"])) {
                    Ok(Ok(())) => {
                        println!("replay passes: property={} subcheck={} file={}", prop, sub, file.display());
                        0
                    }
                    Ok(Err(msg)) => {
                        if msg.starts_with("HARNESS") {
                            eprintln!("harness fault during replay: {}", msg);
                            return 2;
                        }
                        println!("failure: {}", msg);
                        println!("VIOLATION property={} replay={}", prop, file.display());
                        1
                    }
                    Err(p) => {
                        if p.rsplit_once(" @ ").map(|(_, l)| l.contains("ffuzzy/src/")).unwrap_or(false) {
                            println!("failure: the library panicked on an in-contract call: {}", p);
                            println!("VIOLATION property={} replay={}", prop, file.display());
                            return 1;
                        }
                        eprintln!("harness panic during replay: {}", p);
                        2
                    }
                };
            }
        }
    }
    eprintln!("no sub-check named {:?} for {}", sub, prop);
    2
}

fn run_check(prop: &'static str, tier: Tier, secondary: Option<String>, only: Option<String>) -> i32 {
    let t0 = Instant::now();
    let seed = seed_from_env();
    let threads = std::env::var("FFV_THREADS")
        .ok()
        .and_then(|s| s.parse().ok())
        .unwrap_or_else(|| std::thread::available_parallelism().map(|n| n.get()).unwrap_or(8));
    let ctx = Ctx {
        prop,
        tier,
        seed,
        threads,
    };
    let known = load_known();
    let mut sub_summaries: Vec<Value> = Vec::new();
    let mut total = engine::Stats::default();
    let mut samples: Vec<Value> = Vec::new();
    let mut rules: Vec<String> = Vec::new();
    let mut failure: Option<(Failure, String)> = None;
    let mut all_exhaustive = true;
    let mut calibration = BTreeMap::new();
    let mut known_lines: Vec<String> = Vec::new();

    // 0. calibration of the oracles used by this property (harness fault if it fails)
    if secondary.is_none() {
        match checks::calibrate(prop) {
            Ok(v) => {
                calibration.insert("oracles".to_string(), v);
            }
            Err(e) => {
                eprintln!("ORACLE CALIBRATION FAILED (harness fault, not a verdict): {}", e);
                return 2;
            }
        }
    }

    let subs = checks::subchecks(prop, tier);

    // 1. regressions (plain execution, no proptest)
    let regdir = verif_root().join("regressions").join(prop);
    let mut reg_files: Vec<PathBuf> = std::fs::read_dir(&regdir)
        .map(|rd| rd.filter_map(|e| e.ok()).map(|e| e.path()).collect())
        .unwrap_or_default();
    reg_files.sort();
    let mut reg_count = 0u64;
    if only.is_none() {
        for f in &reg_files {
            if f.extension().map(|e| e != "json").unwrap_or(true) {
                continue;
            }
            let v: Value = match std::fs::read_to_string(f).ok().and_then(|s| serde_json::from_str(&s).ok()) {
                Some(v) => v,
                None => {
                    eprintln!("unreadable regression file {}", f.display());
                    return 2;
                }
            };
            if let Some(p) = v["profile"].as_str() {
                if p != "any" && p != PROFILE {
                    continue;
                }
            }
            let subname = v["subcheck"].as_str().unwrap_or("");
            let s = match subs.iter().find(|s| s.name == subname) {
                Some(s) => s,
                None => {
                    eprintln!("regression {} names unknown sub-check {}", f.display(), subname);
                    return 2;
                }
            };
            reg_count += 1;
            match engine::lib(|| (s.replay)(&v["case"])) {
                Ok(Ok(())) => {}
                Ok(Err(msg)) => {
                    // is it an open known finding?
                    let kid = v["known_finding"].as_str();
                    let open = kid.and_then(|k| {
                        known.entries.iter().find(|e| {
                            e["id"].as_str() == Some(k) && e["status"].as_str() == Some("open") && e["property"].as_str() == Some(prop)
                        })
                    });
                    if let Some(e) = open {
                        known_lines.push(format!(
                            "KNOWN-FINDING: property={} {} ({})",
                            prop,
                            e["what"].as_str().unwrap_or(""),
                            e["id"].as_str().unwrap_or("")
                        ));
                    } else {
                        failure = Some((
                            Failure {
                                subcheck: subname.to_string(),
                                message: msg,
                                case: v["case"].clone(),
                                harness_fault: false,
                            },
                            f.display().to_string(),
                        ));
                        break;
                    }
                }
                Err(p) => {
                    eprintln!("harness panic in regression {}: {}", f.display(), p);
                    return 2;
                }
            }
        }
    }

    // 2. generated search
    if failure.is_none() {
        for s in &subs {
            if let Some(o) = &only {
                if s.name != o {
                    continue;
                }
            }
            let r = (s.run)(&ctx);
            eprintln!(
                "[{} {} {}] {}: {} cases, {} distinct non-trivial, {:.1}s{}",
                prop,
                tier.name(),
                PROFILE,
                r.name,
                r.stats.evaluations,
                r.stats.distinct_nontrivial(),
                r.wall_s,
                if r.failure.is_some() { "  FAILED" } else { "" }
            );
            sub_summaries.push(summarize(&r));
            all_exhaustive &= r.exhaustive;
            rules.push(format!("{}: {}", r.name, r.rule));
            for smp in r.samples.iter().take(2) {
                if samples.len() < 12 {
                    samples.push(json!({ "subcheck": r.name, "case": smp }));
                }
            }
            let fail = r.failure.clone();
            total.merge(r.stats);
            if let Some(f) = fail {
                failure = Some((f, "generated".to_string()));
                break;
            }
        }
    }

    // 3. secondary profile (the same sub-checks in the assertion-enabled build)
    let mut profiles = vec![PROFILE.to_string()];
    if failure.is_none() && secondary.is_none() && only.is_none() && checks::wants_relda(prop, tier) && PROFILE == "release" {
        let exe = verif_root().join("target").join("relda").join("ffv");
        if !exe.exists() {
            eprintln!("missing {} (run ./check --setup)", exe.display());
            return 2;
        }
        let tmp = verif_root().join("evidence").join(format!(".{}-relda.tmp", prop));
        let st = std::process::Command::new(&exe)
            .args(["check", prop, "--tier", tier.name(), "--secondary", &tmp.display().to_string()])
            .status();
        let code = st.map(|s| s.code().unwrap_or(2)).unwrap_or(2);
        let sec: Option<Value> = std::fs::read_to_string(&tmp).ok().and_then(|s| serde_json::from_str(&s).ok());
        let _ = std::fs::remove_file(&tmp);
        match (code, sec) {
            (0, Some(v)) | (1, Some(v)) => {
                profiles.push("relda".to_string());
                if let Some(arr) = v["subchecks"].as_array() {
                    for s in arr {
                        sub_summaries.push(s.clone());
                    }
                }
                total.evaluations += v["evaluations"].as_u64().unwrap_or(0);
                if code == 1 {
                    // the secondary already printed its VIOLATION line and wrote the replay file
                    write_evidence(prop, tier, seed, &total, &rules, &samples, &sub_summaries, false, &profiles, &calibration, reg_count, 1, t0, &known_lines);
                    for l in &known_lines {
                        println!("{}", l);
                    }
                    return 1;
                }
            }
            _ => {
                eprintln!("secondary profile run failed with exit code {}", code);
                return 2;
            }
        }
    }

    let violations = if failure.is_some() { 1 } else { 0 };
    if let Some(out) = &secondary {
        let body = json!({
            "subchecks": sub_summaries,
            "evaluations": total.evaluations,
            "violations": violations,
        });
        let _ = std::fs::write(out, serde_json::to_string(&body).unwrap());
    } else {
        write_evidence(prop, tier, seed, &total, &rules, &samples, &sub_summaries, all_exhaustive, &profiles, &calibration, reg_count, violations, t0, &known_lines);
    }
    for l in &known_lines {
        println!("{}", l);
    }
    if let Some((f, source)) = failure {
        if f.harness_fault {
            eprintln!("HARNESS FAULT in {} / {}: {}", prop, f.subcheck, f.message);
            eprintln!("case: {}", f.case);
            return 2;
        }
        let path = if source == "generated" {
            write_replay(prop, &f, &source)
        } else {
            PathBuf::from(&source)
        };
        let m: String = f.message.chars().take(3000).collect();
        println!("failure in sub-check {} [{}]: {}", f.subcheck, PROFILE, m);
        let cs = f.case.to_string();
        println!("case: {}", if cs.len() > 2000 { &cs[..2000] } else { &cs });
        println!("VIOLATION property={} replay={}", prop, path.display());
        return 1;
    }
    0
}

#[allow(clippy::too_many_arguments)]
fn write_evidence(
    prop: &str,
    tier: Tier,
    seed: u64,
    total: &engine::Stats,
    rules: &[String],
    samples: &[Value],
    subs: &[Value],
    exhaustive: bool,
    profiles: &[String],
    calibration: &BTreeMap<String, Value>,
    regressions: u64,
    violations: i64,
    t0: Instant,
    known_lines: &[String],
) {
    let level = checks::level(prop);
    let mut samples = samples.to_vec();
    if samples.is_empty() {
        samples.push(json!({"note": "no non-trivial sample recorded before the run ended"}));
    }
    // classes of the whole run, prefixed by sub-check, are in `subchecks`; here a merged view
    let body = json!({
        "property_id": prop,
        "tier": tier.name(),
        "seed": seed as i64,
        "level": level,
        "coverage": {
            "evaluations": total.evaluations,
            "distinct_nontrivial": total.distinct_nontrivial(),
            "rule": rules.join(" || "),
            "samples": samples,
            "exhaustive": exhaustive,
            "classes": total.classes,
            "subchecks": subs,
            "profiles": profiles,
            "calibration": calibration,
            "regressions_replayed": regressions,
            "known_findings_reported": known_lines,
        },
        "assumptions": checks::assumptions(prop),
        "wall_s": (t0.elapsed().as_secs_f64() * 1000.0).round() / 1000.0,
        "violations": violations,
    });
    let dir = verif_root().join("evidence");
    let _ = std::fs::create_dir_all(&dir);
    let path = dir.join(format!("{}.json", prop));
    if let Err(e) = std::fs::write(&path, serde_json::to_string_pretty(&body).unwrap()) {
        eprintln!("cannot write {}: {}", path.display(), e);
    }
}
