//! C19 - the exposed hash primitives equal their mathematical definitions.
#![allow(deprecated)]

use crate::engine::{enumerated, generated, must, Stats, SubCheck, Tier};
use crate::gens::{self, Prog};
use oracle::gen::{fnv32, roll_def, window_at};
use proptest::prelude::*;
use serde::{Deserialize, Serialize};
use serde_json::json;
use ssdeep::internal_hashes::{PartialFNVHash, RollingHash};
use std::sync::OnceLock;

#[derive(Debug, Clone, Serialize, Deserialize)]
pub struct Case {
    pub prog: Prog,
    /// chunk sizes for the mixed-form feeding
    pub chunks: Vec<u16>,
    /// a second, different prefix for the window-independence check
    pub other_prefix: Vec<u8>,
}

/// for every 6-bit state a byte string that reaches it (BFS over the reference FNV)
fn state_paths() -> &'static Vec<Vec<u8>> {
    static PATHS: OnceLock<Vec<Vec<u8>>> = OnceLock::new();
    PATHS.get_or_init(|| {
        let mut paths: Vec<Option<Vec<u8>>> = vec![None; 64];
        let init = (fnv32(&[]) & 63) as usize;
        paths[init] = Some(Vec::new());
        let mut queue = std::collections::VecDeque::new();
        queue.push_back(init);
        while let Some(s) = queue.pop_front() {
            let p = paths[s].clone().unwrap();
            for b in 0u8..=255 {
                let mut q = p.clone();
                q.push(b);
                let t = (fnv32(&q) & 63) as usize;
                if paths[t].is_none() {
                    paths[t] = Some(q);
                    queue.push_back(t);
                }
            }
        }
        paths.into_iter().map(|p| p.expect("every 6-bit FNV state must be reachable")).collect()
    })
}

fn fnv_step_exhaustive() -> SubCheck {
    enumerated(
        "fnv_all_states_x_bytes",
        "all 64 states x 256 bytes of the partial FNV hash: each state is reached through a BFS-found byte string, then every byte is applied through update_by_byte / update / update_by_iter / += forms and compared with the low six bits of 32-bit FNV-1 (init 0x28021967) over the whole string; non-trivial = all; distinct by construction",
        64 * 256,
        true,
        |i| json!({"state": i / 256, "byte": i % 256, "path": state_paths()[(i / 256) as usize]}),
        |lo, hi, st: &mut Stats| {
            for i in lo..hi {
                let (s, b) = ((i / 256) as usize, (i % 256) as u8);
                let path = &state_paths()[s];
                let mut h = PartialFNVHash::new();
                must("update", || {
                    h.update(path);
                })
                .map_err(|m| (i, m))?;
                let v0 = must("value", || h.value()).map_err(|m| (i, m))?;
                if v0 as usize != s {
                    return Err((i, format!("PartialFNVHash after {:?} is {} but FNV-1 & 63 is {}", path, v0, s)));
                }
                let mut full = path.clone();
                full.push(b);
                let exp = (fnv32(&full) & 63) as u8;
                let mut h1 = h;
                must("update_by_byte", || {
                    h1.update_by_byte(b);
                })
                .map_err(|m| (i, m))?;
                let mut h2 = h;
                h2.update(&[b]);
                let mut h3 = h;
                h3.update_by_iter([b].iter().copied());
                let mut h4 = h;
                h4 += b;
                let mut h5 = h;
                h5 += &[b][..];
                let mut h6 = h;
                h6 += &[b];
                for (name, hh) in [("update_by_byte", h1), ("update", h2), ("update_by_iter", h3), ("+= u8", h4), ("+= &[u8]", h5), ("+= &[u8;1]", h6)] {
                    let v = must("value", || hh.value()).map_err(|m| (i, m))?;
                    if v != exp {
                        return Err((i, format!("PartialFNVHash state {} then byte {} via {}: {} but FNV-1 & 63 is {}", s, b, name, v, exp)));
                    }
                }
                st.count(1);
                st.nontrivial_distinct(1);
            }
            Ok(())
        },
    )
}

pub fn eval(case: &Case, st: &mut Stats) -> Result<(), String> {
    let data = case.prog.render();
    // rolling hash: value after every prefix = closed formula over the trailing window
    let mut r = RollingHash::new();
    ensure_eq!(must("value", || r.value())?, 0, "RollingHash::new().value()");
    for (p, &c) in data.iter().enumerate() {
        must("update_by_byte", || {
            r.update_by_byte(c);
        })?;
        let v = must("value", || r.value())?;
        let exp = roll_def(&window_at(&data, p));
        if v != exp {
            return Err(format!("rolling hash after {} bytes is {:#x}, the definition over the last seven bytes {:?} gives {:#x}", p + 1, v, window_at(&data, p), exp));
        }
    }
    // forms agree (mixed chunking)
    let mut r2 = RollingHash::new();
    let mut f2 = PartialFNVHash::new();
    let mut pos = 0usize;
    let mut k = 0usize;
    while pos < data.len() {
        let n = if case.chunks.is_empty() { data.len() } else { (case.chunks[k % case.chunks.len()] as usize).max(1) };
        let n = n.min(data.len() - pos);
        let c = &data[pos..pos + n];
        match k % 6 {
            0 => {
                r2.update(c);
                f2.update(c);
            }
            1 => {
                // iterators with exact and with inexact / wrong size hints (only the items count)
                let hint = (k / 6 % 4) as u8;
                r2.update_by_iter(crate::checks::c03::HintIter { inner: c.iter(), hint });
                f2.update_by_iter(crate::checks::c03::HintIter { inner: c.iter(), hint });
                if hint != 0 {
                    st.class("iterator_with_inexact_size_hint");
                }
            }
            2 => {
                for &b in c {
                    r2.update_by_byte(b);
                    f2.update_by_byte(b);
                }
            }
            3 => {
                r2 += c;
                f2 += c;
            }
            4 => {
                for &b in c {
                    r2 += b;
                    f2 += b;
                }
            }
            _ => {
                if n >= 7 {
                    let a: &[u8; 7] = (&c[..7]).try_into().unwrap();
                    r2 += a;
                    f2 += a;
                    r2.update(&c[7..]);
                    f2.update(&c[7..]);
                } else {
                    r2.update(c);
                    f2.update(c);
                }
            }
        }
        pos += n;
        k += 1;
    }
    ensure_eq!(must("value", || r2.value())?, must("value", || r.value())?, "rolling hash: mixed update forms vs byte-wise");
    ensure_eq!(must("value", || r2.value())?, oracle::gen::roll_of(&data), "rolling hash of the whole string vs definition");
    ensure_eq!(must("value", || f2.value())? as u32, fnv32(&data) & 63, "partial FNV of the whole string (mixed forms) vs low six bits of 32-bit FNV-1");
    let mut f3 = PartialFNVHash::new();
    f3.update(&data);
    ensure_eq!(must("value", || f3.value())? as u32, fnv32(&data) & 63, "partial FNV of the whole string vs low six bits of 32-bit FNV-1");
    // window independence: another prefix, the same last seven bytes
    if data.len() >= 7 {
        let tail = &data[data.len() - 7..];
        let mut r3 = RollingHash::new();
        r3.update(&case.other_prefix);
        r3.update(tail);
        ensure_eq!(must("value", || r3.value())?, must("value", || r.value())?, "rolling hash depends on more than the last seven bytes (prefix {:?})", case.other_prefix);
        st.nontrivial(oracle::fingerprint(&data));
    }
    st.class(match data.len() {
        0..=6 => "len<7",
        7..=63 => "len<64",
        64..=4095 => "len<4Ki",
        _ => "len>=4Ki",
    });
    Ok(())
}

pub fn strategy(wt: u64, tier: Tier) -> impl Strategy<Value = Case> {
    let max_n = tier.pick(1u32 << 12, 1u32 << 14);
    (
        prop_oneof![2 => gens::prog_free(wt, max_n, 4, 3), 1 => gens::prog_uniform(wt, max_n), 1 => gens::prog_aimed(wt, 3)],
        proptest::collection::vec(prop_oneof![3 => 1u16..=9, 1 => 1u16..=5000], 0..5),
        proptest::collection::vec(any::<u8>(), 0..40),
    )
        .prop_map(|(prog, chunks, other_prefix)| Case { prog, chunks, other_prefix })
}

/// One slice of more than 2^32 bytes in a single call (the hashes keep 32-bit counters; positions, lengths
/// and indices beyond 4 GiB must not matter): zero bytes, with live bytes at the start, around byte 2^32 and at
/// the end. The zero run of the reference FNV is computed in closed form.
#[derive(Debug, Clone, Serialize, Deserialize)]
pub struct HugeCase {
    pub over: u32,
    pub seed: u64,
    /// 0 update(&[u8]), 1 += &[u8]
    pub form: u8,
}

pub fn eval_huge(c: &HugeCase, st: &mut Stats) -> Result<(), String> {
    let border = 1usize << 32;
    let n = border + c.over as usize;
    let mut v = vec![0u8; n];
    let mut r = oracle::words::SplitMix(c.seed);
    r.fill(&mut v[..32]);
    r.fill(&mut v[border - 64..]);
    let segs = [oracle::gen::Seg::Bytes(&v[..32]), oracle::gen::Seg::Zeros((border - 64 - 32) as u64), oracle::gen::Seg::Bytes(&v[border - 64..])];
    let mut rh = RollingHash::new();
    let mut fh = PartialFNVHash::new();
    must("RollingHash / PartialFNVHash over one slice of more than 4 GiB", || {
        if c.form % 2 == 0 {
            rh.update(&v);
            fh.update(&v);
        } else {
            rh += &v[..];
            fh += &v[..];
        }
    })?;
    ensure_eq!(rh.value(), oracle::gen::roll_of(&v[n - 16..]), "RollingHash::value() after one slice of 2^32+{} bytes", c.over);
    ensure_eq!(fh.value() as u32, oracle::gen::fnv32_segs(&segs) & 63, "PartialFNVHash::value() after one slice of 2^32+{} bytes", c.over);
    // the state left behind must serve the following bytes as well
    let mut tail = v[n - 16..].to_vec();
    for k in 0..20u8 {
        let b = k.wrapping_mul(37) ^ 0x5a;
        tail.push(b);
        must("update_by_byte", || {
            rh.update_by_byte(b);
        })?;
        ensure_eq!(rh.value(), oracle::gen::roll_of(&tail), "RollingHash::value() {} bytes after a slice of 2^32+{} bytes", k + 1, c.over);
    }
    st.class("slice_beyond_4GiB");
    st.nontrivial(oracle::fingerprint(format!("{:?}", c).as_bytes()));
    Ok(())
}

pub fn subchecks(tier: Tier) -> Vec<SubCheck> {
    let wt_seed = move || -> u64 {
        std::env::var("VERIF_SEED").ok().and_then(|s| s.trim().parse::<i128>().ok()).map(|v| v as u64).unwrap_or(0) ^ 0xC19
    };
    vec![
        fnv_step_exhaustive(),
        generated(
            "strings_vs_definitions",
            "byte strings (random, low-entropy, periodic, zero runs, trigger words incl. the 0xffffffff word): RollingHash::value() after every prefix vs sum + position-weighted sum + shift-5-xor fold over the trailing window; window independence under a different prefix; PartialFNVHash vs low six bits of 32-bit FNV-1; slice / iterator / byte / += slice / += byte / += array forms agree; non-trivial = strings of >= 7 bytes; distinct by bytes",
            tier.pick(3_000_000, 30_000_000),
            move || strategy(wt_seed(), tier),
            eval,
        ),
        crate::engine::listed(
            "slice_beyond_4gib",
            "a single update / += call with a slice of 2^32 + k bytes (zero bytes with live bytes at the start, around byte 2^32 and at the end): rolling value vs the definition over the last seven bytes, also for 20 bytes fed afterwards; partial FNV vs FNV-1 with the zero run in closed form; non-trivial = all; distinct by case",
            tier.pick(
                vec![HugeCase { over: 48, seed: 1, form: 0 }],
                vec![HugeCase { over: 48, seed: 1, form: 0 }, HugeCase { over: 5, seed: 2, form: 1 }, HugeCase { over: 4099, seed: 3, form: 0 }],
            ),
            eval_huge,
        ),
    ]
}
