//! C01 - generated hashes are byte-identical to ssdeep 2.14.1 (reference: models A and B).

use crate::engine::{generated, must, Stats, SubCheck, Tier};
use crate::gens::{self, Prog};
use oracle::fmt::format_hash;
use oracle::gen::{model_a, model_b, GenOut, GenStats};
use proptest::prelude::*;
use serde::{Deserialize, Serialize};
use ssdeep::{Generator, GeneratorError};

#[derive(Debug, Clone, Serialize, Deserialize)]
pub struct Case {
    pub prog: Prog,
}

/// both models, cross-checked (a disagreement is a harness fault -> panic -> exit 2)
pub fn reference(data: &[u8]) -> (GenOut, GenStats) {
    let (b, sb) = model_b(0, data, None).expect("model B rejects an input below the size limit");
    let (a, _) = model_a(0, data).expect("model A rejects an input below the size limit");
    assert!(a == b, "ORACLE SELF-CHECK: model A != model B: {:?} vs {:?}", a, b);
    (b, sb)
}

pub fn piece_class(c: u64) -> &'static str {
    match c {
        0 => "0",
        1..=31 => "1-31",
        32 => "32",
        33..=63 => "33-63",
        _ => "64+",
    }
}

/// compare every finalisation variant of `g` with the reference output
pub fn check_generator_output(g: &Generator, r: &GenOut, what: &str) -> Result<(), String> {
    let exp_short = format_hash(r.log, &r.bh1, &r.bh2_trunc);
    let exp_long = format_hash(r.log, &r.bh1, &r.bh2_full);
    let h = must("finalize", || g.finalize())?;
    match h {
        Ok(h) => {
            ensure_eq!(h.to_string(), exp_short, "{}: finalize()", what);
            // the returned object is a valid one, structurally identical to the parsed text
            ensure!(must("is_valid", || h.is_valid())?, "{}: finalize() returned an object that fails is_valid(): {:?}", what, h);
            let parsed = must("parse", || exp_short.parse::<ssdeep::RawFuzzyHash>())?.map_err(|e| format!("{}: hash text {} rejected by the parser: {:?}", what, exp_short, e))?;
            ensure!(must("full_eq", || h.full_eq(&parsed))?, "{}: finalize() result is not full_eq to the object parsed from its own text {}", what, exp_short);
            ensure_eq!(h.cmp(&parsed), std::cmp::Ordering::Equal, "{}: finalize() result vs parsed text: cmp", what);
        }
        Err(e) => return Err(format!("{}: finalize() returned {:?}, expected {}", what, e, exp_short)),
    }
    let h = must("finalize_without_truncation", || g.finalize_without_truncation())?;
    match h {
        Ok(h) => {
            ensure_eq!(h.to_string(), exp_long, "{}: finalize_without_truncation()", what);
            ensure!(must("is_valid", || h.is_valid())?, "{}: finalize_without_truncation() returned an object that fails is_valid(): {:?}", what, h);
            let parsed = must("parse", || exp_long.parse::<ssdeep::LongRawFuzzyHash>())?.map_err(|e| format!("{}: hash text {} rejected by the parser: {:?}", what, exp_long, e))?;
            ensure!(must("full_eq", || h.full_eq(&parsed))?, "{}: finalize_without_truncation() result is not full_eq to the object parsed from its own text {}", what, exp_long);
        }
        Err(e) => return Err(format!("{}: finalize_without_truncation() returned {:?}, expected {}", what, e, exp_long)),
    }
    let h = must("finalize_raw<false,64,32>", || g.finalize_raw::<false, 64, 32>())?;
    if r.bh2_full.len() <= 32 {
        match h {
            Ok(h) => ensure_eq!(h.to_string(), exp_long, "{}: finalize_raw::<false,64,32>()", what),
            Err(e) => return Err(format!("{}: finalize_raw::<false,64,32>() returned {:?}, expected {}", what, e, exp_long)),
        }
    } else {
        match h {
            Err(GeneratorError::OutputOverflow) => {}
            other => {
                return Err(format!(
                    "{}: finalize_raw::<false,64,32>() must be Err(OutputOverflow) (block hash 2 has {} chars), got {:?}",
                    what,
                    r.bh2_full.len(),
                    other.map(|h| h.to_string())
                ))
            }
        }
    }
    let h = must("finalize_raw<true,64,64>", || g.finalize_raw::<true, 64, 64>())?;
    match h {
        Ok(h) => ensure_eq!(h.to_string(), exp_short, "{}: finalize_raw::<true,64,64>()", what),
        Err(e) => return Err(format!("{}: finalize_raw::<true,64,64>() returned {:?}, expected {}", what, e, exp_short)),
    }
    Ok(())
}

pub fn classify(st: &mut Stats, data: &[u8], r: &GenOut, s: &GenStats, prog: Option<&Prog>) {
    st.class(&format!("index={:02}", r.log));
    st.class(&format!("pieces_sel={}", piece_class(s.cnt_sel)));
    st.class(&format!("pieces_next={}", piece_class(s.cnt_next)));
    if s.eliminated > 0 {
        st.class("eliminated>=1");
    }
    if s.lasth {
        st.class("last_hash_active");
    }
    if s.rend_zero {
        st.class("final_roll=0");
    }
    if r.bh2_full.len() > 32 {
        st.class("short_notrunc_overflow");
    }
    if r.log < s.initial_index {
        st.class("index_backed_off");
    }
    // border offset of the total size
    let n = data.len() as i64;
    let mut border = "border=none";
    for j in 0..24 {
        let b = 192i64 << j;
        match n - b {
            -2 => border = "border-2",
            -1 => border = "border-1",
            0 => border = "border+0",
            1 => border = "border+1",
            2 => border = "border+2",
            _ => {}
        }
    }
    st.class(border);
    if let Some(p) = prog {
        st.class(match p.toks.first() {
            Some(gens::Tok::Aimed { .. }) => "prog=aimed",
            Some(gens::Tok::Rand { .. }) if p.toks.len() <= 2 => "prog=uniform",
            _ => "prog=free",
        });
    }
    st.class(match data.len() {
        0 => "len=0",
        1..=191 => "len<192",
        192..=4095 => "len<4Ki",
        4096..=65535 => "len<64Ki",
        65536..=1048575 => "len<1Mi",
        _ => "len>=1Mi",
    });
}

pub fn eval(case: &Case, st: &mut Stats) -> Result<(), String> {
    let data = case.prog.render();
    let (r, s) = reference(&data);
    classify(st, &data, &r, &s, Some(&case.prog));
    if s.cnt_sel >= 1 {
        st.nontrivial(oracle::fingerprint(&data));
    }
    let mut g = Generator::new();
    must("update", || {
        g.update(&data);
    })?;
    ensure_eq!(g.input_size(), data.len() as u64, "input_size()");
    check_generator_output(&g, &r, "update(all)")?;
    // the same input through a generator that had an earlier life (declared size, finalised, reset)
    {
        // every fourth case: a first life that fills many block-size levels (64 KiB of noise)
        static NOISE: std::sync::OnceLock<Vec<u8>> = std::sync::OnceLock::new();
        let noise = NOISE.get_or_init(|| {
            let mut v = vec![0u8; 1 << 16];
            oracle::words::SplitMix(0xC01).fill(&mut v);
            v
        });
        let busy = oracle::fingerprint(&data[..data.len().min(64)]) % 4 == 0;
        let first: &[u8] = if busy { noise } else { &data[..data.len().min(13 + data.len() / 97)] };
        if busy {
            st.class("reuse_after_busy_life");
        }
        let mut g2 = Generator::new();
        let _ = must("set_fixed_input_size", || g2.set_fixed_input_size(first.len() as u64))?;
        must("update", || {
            g2.update(first);
        })?;
        let _ = must("finalize", || g2.finalize())?;
        must("reset", || g2.reset())?;
        // the second life declares its size in half of the cases
        let declare = oracle::fingerprint(&data[..data.len().min(80)]) % 2 == 0;
        if declare {
            let rr = must("set_fixed_input_size", || g2.set_fixed_input_size(data.len() as u64))?;
            ensure_eq!(rr, Ok(()), "set_fixed_input_size({}) on a re-used generator", data.len());
        }
        must("update", || {
            g2.update(&data);
        })?;
        check_generator_output(&g2, &r, if declare { "re-used generator (after reset, size declared)" } else { "re-used generator (after reset)" })?;
    }
    // a declared size (equal to what is fed) and a refused second declaration in between
    {
        let mut g3 = Generator::new();
        let n = data.len() as u64;
        // the declaration comes first, in the middle of the data or after all of it
        let fp = oracle::fingerprint(&data[..data.len().min(96)]);
        let early = match fp % 3 {
            0 => 0,
            1 => ((fp >> 8) % (n + 1)) as usize,
            _ => data.len(),
        };
        st.class(match fp % 3 {
            0 => "declared_first",
            1 => "declared_midway",
            _ => "declared_last",
        });
        must("update", || {
            g3.update(&data[..early]);
        })?;
        let r1 = must("set_fixed_input_size", || g3.set_fixed_input_size(n))?;
        ensure_eq!(r1, Ok(()), "set_fixed_input_size({})", n);
        let other = n / 977 + 1;
        let r2 = must("set_fixed_input_size", || g3.set_fixed_input_size(other))?;
        if other != n {
            ensure_eq!(r2, Err(GeneratorError::FixedSizeMismatch), "second, different set_fixed_input_size({})", other);
        }
        must("update", || {
            g3.update(&data[early..]);
        })?;
        check_generator_output(&g3, &r, "generator with a declared size (before, amid or after the data) and a refused re-declaration")?;
    }
    let hb = must("hash_buf", || ssdeep::hash_buf(&data))?;
    match hb {
        Ok(h) => ensure_eq!(h.to_string(), format_hash(r.log, &r.bh1, &r.bh2_trunc), "hash_buf()"),
        Err(e) => return Err(format!("hash_buf() returned {:?}", e)),
    }
    // ... and through the reader-based function with short reads
    let sizes = [(data.len() as u16 % 13) + 1, 7, 4096, 1, 300];
    let mut rd = crate::checks::c03::ChunkReader { data: &data, pos: 0, sizes: &sizes, k: 0 };
    let hs = must("hash_stream", || ssdeep::hash_stream(&mut rd))?;
    match hs {
        Ok(h) => ensure_eq!(h.to_string(), format_hash(r.log, &r.bh1, &r.bh2_trunc), "hash_stream() with short reads"),
        Err(e) => return Err(format!("hash_stream() failed: {}", e)),
    }
    Ok(())
}

pub fn strategy(wt: u64, tier: Tier) -> impl Strategy<Value = Case> {
    let (max_n, max_border) = tier.pick((1u32 << 20, 12u8), (1u32 << 22, 14u8));
    gens::prog_mix(wt, max_n, max_border).prop_map(|prog| Case { prog })
}

pub fn subchecks(tier: Tier) -> Vec<SubCheck> {
    let cases = tier.pick(40_000, 300_000);
    let wt_seed = move || -> u64 {
        std::env::var("VERIF_SEED").ok().and_then(|s| s.trim().parse::<i128>().ok()).map(|v| v as u64).unwrap_or(0) ^ 0xC01
    };
    vec![generated(
        "gen_vs_models",
        "byte programs (aimed word programs 40%, uniform 30%, free-form 30%); non-trivial = the selected level has >= 1 piece boundary; distinct by input bytes",
        cases,
        move || strategy(wt_seed(), tier),
        eval,
    )]
}
