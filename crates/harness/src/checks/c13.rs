//! C13 - size limits and block-size choice over the whole 0..192 GiB range (through the
//! cfg(a4lg_ffuzzy_verif) zero-feeding hook, which is itself validated against real feeding).

use crate::checks::c01::{check_generator_output, piece_class};
use crate::engine::{generated, must, run_generated, Stats, SubCheck, Tier};
use crate::gens::{self, Prog, Tok};
use crate::segs::{self, OwnedSeg, SegSpec};
use oracle::gen::{model_a_segs, model_b_segs, GenErr, Seg, MAX_INPUT_SIZE};
use proptest::prelude::*;
use serde::{Deserialize, Serialize};
use ssdeep::{Generator, GeneratorError};

#[derive(Debug, Clone, Serialize, Deserialize)]
pub struct Case {
    /// total size to reach
    pub size: u64,
    pub p1: Prog,
    pub p2: Prog,
    /// share of the zero bytes placed before p1 (0..=255 / 255); the rest goes between p1 and p2
    pub split: u8,
    /// 0 no declaration, 1 declared before feeding, 2 declared after feeding
    pub declare: u8,
    pub chunks: u8,
}

pub fn build_segs(case: &Case) -> (Vec<SegSpec>, Vec<OwnedSeg>) {
    let mut b1 = case.p1.render();
    let mut b2 = case.p2.render();
    // fit the literal part into the total size
    if (b1.len() + b2.len()) as u64 > case.size {
        b2.clear();
        b1.truncate(case.size as usize);
    }
    let z = case.size - (b1.len() + b2.len()) as u64;
    let z0 = match case.split {
        0 => 0,
        255 => z,
        s => ((z as u128 * s as u128) / 255) as u64,
    };
    let owned = vec![
        OwnedSeg::Zeros(z0),
        OwnedSeg::Bytes(b1),
        OwnedSeg::Zeros(z - z0),
        OwnedSeg::Bytes(b2),
    ];
    (Vec::new(), owned)
}

pub fn eval(case: &Case, st: &mut Stats) -> Result<(), String> {
    let (_, owned) = build_segs(case);
    let segs = segs::as_segs(&owned);
    let total = segs::total_len(&owned);
    assert_eq!(total, case.size);
    let declared = if case.declare % 3 != 0 && total <= MAX_INPUT_SIZE { Some(total) } else { None };
    let rb = model_b_segs(&segs, declared);
    let rb_plain = model_b_segs(&segs, None);
    let ra = model_a_segs(&segs);
    match (&ra, &rb, &rb_plain) {
        (Ok(a), Ok(b), Ok(c)) => assert!(a.0 == b.0 && a.0 == c.0, "ORACLE SELF-CHECK: models disagree: A {:?} B(fixed) {:?} B {:?}", a.0, b.0, c.0),
        (Err(GenErr::InputSizeTooLarge), Err(GenErr::InputSizeTooLarge), Err(GenErr::InputSizeTooLarge)) => {}
        _ => panic!("ORACLE SELF-CHECK: models disagree on acceptance: {:?} / {:?} / {:?}", ra.is_ok(), rb.is_ok(), rb_plain.is_ok()),
    }
    let mut g = Generator::new();
    if case.split % 2 == 1 {
        // a re-used generator: an earlier life that reached every block-size level (a level-30 word switches the
        // last-piece hash on) and filled low levels, then reset - it must behave exactly like a new one
        static NOISE: std::sync::OnceLock<Vec<u8>> = std::sync::OnceLock::new();
        let noise = NOISE.get_or_init(|| {
            let mut v = vec![0u8; 20000];
            oracle::words::SplitMix(0xC13).fill(&mut v);
            v
        });
        must("first life", || {
            g.update(b"`]]]_CT");
            g.update(noise);
            let _ = g.finalize();
            g.reset();
        })?;
        st.class("reused_generator_after_reset");
    }
    if case.declare % 3 == 1 {
        let r = must("set_fixed_input_size", || g.set_fixed_input_size(total))?;
        if total <= MAX_INPUT_SIZE {
            ensure_eq!(r, Ok(()), "set_fixed_input_size({})", total);
        } else {
            ensure_eq!(r, Err(GeneratorError::FixedSizeTooLarge), "set_fixed_input_size({}) above the limit", total);
        }
    }
    for s in &owned {
        segs::feed_seg(&mut g, s, case.chunks)?;
    }
    if case.declare % 3 == 2 {
        let r = must("set_fixed_input_size", || g.set_fixed_input_size(total))?;
        if total <= MAX_INPUT_SIZE {
            ensure_eq!(r, Ok(()), "set_fixed_input_size({}) after feeding", total);
        } else {
            ensure_eq!(r, Err(GeneratorError::FixedSizeTooLarge), "set_fixed_input_size({}) above the limit", total);
        }
    }
    ensure_eq!(g.input_size(), total, "input_size()");
    ensure_eq!(must("may_warn_about_small_input_size", || g.may_warn_about_small_input_size())?, total < 4097, "may_warn_about_small_input_size() for size {}", total);
    match rb {
        Ok((r, s)) => {
            check_generator_output(&g, &r, &format!("size {}", total))?;
            st.class(&format!("index={:02}", r.log));
            st.class(&format!("pieces_sel={}", piece_class(s.cnt_sel)));
            if s.lasth {
                st.class("last_hash_active");
            }
            if r.log == 30 && s.cnt_next == 0 && !s.rend_zero {
                st.class("bh2_from_last_hash");
            }
            if s.eliminated > 0 {
                st.class(&format!("eliminated>={}", (s.eliminated / 8) * 8));
            }
            if r.log < s.initial_index {
                st.class("index_backed_off");
            }
            if r.bh2_full.len() > 32 {
                st.class("short_notrunc_overflow");
            }
            if total == MAX_INPUT_SIZE {
                st.class("size=limit");
            }
            if total > (1 << 24) && s.cnt_sel >= 32 {
                st.nontrivial(oracle::fingerprint(format!("{:?}", case).as_bytes()));
            }
        }
        Err(_) => {
            st.class("size>limit");
            let f1 = must("finalize", || g.finalize())?;
            ensure_eq!(f1.map(|h| h.to_string()), Err(GeneratorError::InputSizeTooLarge), "finalize() with {} bytes fed (limit {})", total, MAX_INPUT_SIZE);
            let f2 = must("finalize_without_truncation", || g.finalize_without_truncation())?;
            ensure_eq!(f2.map(|h| h.to_string()), Err(GeneratorError::InputSizeTooLarge), "finalize_without_truncation() above the limit");
            let f3 = must("finalize_raw", || g.finalize_raw::<false, 64, 32>())?;
            ensure_eq!(f3.map(|h| h.to_string()), Err(GeneratorError::InputSizeTooLarge), "finalize_raw::<false,64,32>() above the limit");
            st.nontrivial(oracle::fingerprint(format!("{:?}", case).as_bytes()));
        }
    }
    Ok(())
}

fn size_class() -> impl Strategy<Value = u64> {
    prop_oneof![
        8 => (0u32..=30, -2i64..=2).prop_map(|(n, d)| ((192u64 << n) as i64 + d) as u64),
        2 => (0u64..=16, any::<bool>()).prop_map(|(k, up)| if up { (96u64 << 30) + k } else { (96u64 << 30) - k }),
        2 => (0u64..=16).prop_map(|k| MAX_INPUT_SIZE - k),
        2 => (1u64..=16).prop_map(|k| MAX_INPUT_SIZE + k),
        1 => prop::sample::select(vec![4095u64, 4096, 4097, 0, 1, 191, 192, 193]),
        1 => 0u64..5000,
        2 => (8u32..=37, any::<u64>()).prop_map(|(b, r)| (1u64 << b) + r % (1u64 << b)),
    ]
}

/// program aimed at the levels around the initial index of `size`
fn prog_for(wt: u64, size: u64) -> impl Strategy<Value = Prog> {
    let idx = oracle::gen::initial_index(size).min(30) as u8;
    (
        prop_oneof![3 => Just(idx), 2 => Just(idx.saturating_sub(1)), 1 => Just((idx + 1).min(30)), 1 => 0u8..=30],
        gens::count_value(),
        gens::count_value(),
        gens::count_value(),
        any::<u64>(),
        0u8..4,
        prop::option::weighted(0.3, 0u8..4),
        gens::tail_tok(),
        proptest::collection::vec(gens::tok_simple(256), 0..2),
    )
        .prop_map(move |(t, c_hi, c_mid, c_lo, order, filler, w30, tail, extra)| {
            let mut toks = vec![Tok::Aimed { t, c_hi, c_mid, c_lo, order, filler }];
            if let Some(v) = w30 {
                toks.push(Tok::Word { level: 30, variant: v });
            }
            toks.extend(extra);
            if let Some(t) = tail {
                toks.push(t);
            }
            Prog { wt, toks, target: None, pad_zeros: true, pad_seed: 0 }
        })
}

pub fn strategy(wt: u64) -> impl Strategy<Value = Case> {
    size_class().prop_flat_map(move |size| {
        (
            Just(size),
            prog_for(wt, size),
            prop_oneof![2 => Just(Prog { wt, toks: vec![], target: None, pad_zeros: true, pad_seed: 0 }), 1 => prog_for(wt, size)],
            prop_oneof![2 => Just(255u8), 1 => Just(0u8), 1 => Just(128u8), 1 => any::<u8>()],
            0u8..3,
            0u8..3,
        )
            .prop_map(|(size, p1, p2, split, declare, chunks)| Case { size, p1, p2, split, declare, chunks })
    })
}

// ---- validation of the hook itself --------------------------------------------------------

#[derive(Debug, Clone, Serialize, Deserialize)]
pub struct HookCase {
    pub before: Prog,
    pub zeros: u64,
    pub after: Prog,
    pub forms: Vec<u16>,
}

pub fn eval_hook(case: &HookCase, st: &mut Stats) -> Result<(), String> {
    let before = case.before.render();
    let after = case.after.render();
    let mut g_hook = Generator::new();
    let mut g_real = Generator::new();
    must("update", || {
        g_hook.update(&before);
        g_real.update(&before);
    })?;
    must("verif_feed_zeroes", || {
        g_hook.verif_feed_zeroes(case.zeros);
    })?;
    // (1) really feed the zeros with per-byte size accounting (update_by_iter / update_by_byte):
    //     the hook promises the identical state.
    let mut left = case.zeros;
    let mut k = 0usize;
    while left > 0 {
        let want = if case.forms.is_empty() { 1u64 << 16 } else { (case.forms[k % case.forms.len()] as u64).max(1) };
        let n = want.min(left);
        if k % 2 == 0 || n > 16 {
            g_real.update_by_iter(std::iter::repeat(0u8).take(n as usize));
        } else {
            for _ in 0..n {
                g_real.update_by_byte(0);
            }
        }
        left -= n;
        k += 1;
    }
    // (2) and with slice updates (size accounted per chunk, so eliminations may happen at other
    //     moments: only behaviour has to agree)
    let mut g_chunk = Generator::new();
    g_chunk.update(&before);
    let zbuf = vec![0u8; 1 << 16];
    let mut left = case.zeros;
    let mut k = 0usize;
    while left > 0 {
        let want = if case.forms.is_empty() { zbuf.len() as u64 } else { (case.forms[k % case.forms.len()] as u64).max(1) };
        let n = want.min(left).min(zbuf.len() as u64) as usize;
        g_chunk.update(&zbuf[..n]);
        left -= n as u64;
        k += 1;
    }
    let diff_at = |a: &str, b: &str| -> String {
        let i = a.bytes().zip(b.bytes()).position(|(x, y)| x != y).unwrap_or(a.len().min(b.len()));
        let lo = i.saturating_sub(120);
        format!("hook: ...{} / real: ...{}", &a[lo..(i + 80).min(a.len())], &b[lo..(i + 80).min(b.len())])
    };
    let (d1, d2) = (format!("{:?}", g_hook), format!("{:?}", g_real));
    ensure!(d1 == d2, "hook state after {} zero bytes differs from really feeding them byte-wise: {}", case.zeros, diff_at(&d1, &d2));
    let fin = |g: &Generator| -> Result<(String, String), String> {
        Ok((
            format!("{:?}", must("finalize", || g.finalize().map(|h| h.to_string()))?),
            format!("{:?}", must("finalize_without_truncation", || g.finalize_without_truncation().map(|h| h.to_string()))?),
        ))
    };
    ensure_eq!(fin(&g_hook)?, fin(&g_chunk)?, "hash after hook zeros vs slice-fed zeros ({} bytes)", case.zeros);
    must("update", || {
        g_hook.update(&after);
        g_real.update(&after);
        g_chunk.update(&after);
    })?;
    let (d1, d2) = (format!("{:?}", g_hook), format!("{:?}", g_real));
    ensure!(d1 == d2, "hook state after the continuation differs from really feeding {} zeros: {}", case.zeros, diff_at(&d1, &d2));
    ensure_eq!(fin(&g_hook)?, fin(&g_chunk)?, "hash after the continuation: hook zeros vs slice-fed zeros ({} bytes)", case.zeros);
    ensure_eq!(g_hook.input_size(), g_chunk.input_size(), "input_size after hook vs slice-fed zeros");
    if before.is_empty() {
        let g_new = must("verif_new_with_prefix_zeroes", || Generator::verif_new_with_prefix_zeroes(case.zeros))?;
        let mut g2 = Generator::new();
        g2.verif_feed_zeroes(case.zeros);
        ensure!(format!("{:?}", g_new) == format!("{:?}", g2), "verif_new_with_prefix_zeroes({}) != new() + verif_feed_zeroes", case.zeros);
    }
    st.class(match case.zeros {
        0..=7 => "zeros<=7",
        8..=4096 => "zeros<=4096",
        4097..=1048576 => "zeros<=1Mi",
        _ => "zeros>1Mi",
    });
    if !before.is_empty() {
        st.class("state_before_zeros");
    }
    if case.zeros > 7 {
        st.nontrivial(oracle::fingerprint(format!("{:?}", case).as_bytes()));
    }
    Ok(())
}

fn hook_strategy(wt: u64, max_log: u32) -> impl Strategy<Value = HookCase> {
    (
        prop_oneof![1 => Just(Prog { wt, toks: vec![], target: None, pad_zeros: true, pad_seed: 0 }), 3 => gens::prog_mix(wt, 1 << 12, 4)],
        prop_oneof![6 => 0u64..=4096, 3 => (12u32..=20, any::<u64>()).prop_map(|(b, r)| (1u64 << b) + r % (1u64 << b)), 1 => (20u32..=max_log, any::<u64>()).prop_map(|(b, r)| (1u64 << b) + r % (1u64 << b))],
        gens::prog_mix(wt, 1 << 10, 3),
        proptest::collection::vec(prop_oneof![1u16..=9, 1u16..=u16::MAX], 0..5),
    )
        .prop_map(|(before, zeros, after, forms)| HookCase { before, zeros, after, forms })
}

/// A real slice of more than 2^32 bytes handed over in one call (no hook): zero bytes with noise at the start,
/// and piece-making words around byte 2^32 and at the end.
#[derive(Debug, Clone, serde::Serialize, serde::Deserialize)]
pub struct HugeSlice {
    pub over: u32,
    pub seed: u64,
    /// 0 update(&[u8]), 1 hash_buf
    pub form: u8,
}

pub fn eval_huge_slice(c: &HugeSlice, st: &mut Stats) -> Result<(), String> {
    let border = 1usize << 32;
    let live = 4096usize;
    let n = border + c.over as usize;
    let mut v = vec![0u8; n];
    let wt = crate::gens::word_table(c.seed);
    let mut r = oracle::words::SplitMix(c.seed);
    r.fill(&mut v[..32]);
    // words of the levels around the one a 4 GiB input selects, laid over the last `live` bytes before the
    // border and over everything after it
    let mut pos = border - live;
    let mut k = 0usize;
    while pos + 7 <= n {
        let level = 19 + (r.next() % 9) as usize;
        let ws = &wt.words[level];
        v[pos..pos + 7].copy_from_slice(&ws[k % ws.len()]);
        k += 1;
        pos += 7 + (r.next() % 3) as usize;
    }
    let segs = [Seg::Bytes(&v[..32]), Seg::Zeros((border - live - 32) as u64), Seg::Bytes(&v[border - live..])];
    let (rb, s) = model_b_segs(&segs, None).map_err(|e| format!("HARNESS-PANIC: model B refused: {:?}", e))?;
    let (ra, _) = model_a_segs(&segs).map_err(|e| format!("HARNESS-PANIC: model A refused: {:?}", e))?;
    assert!(ra == rb, "ORACLE SELF-CHECK: models disagree");
    if c.form % 2 == 0 {
        let mut g = Generator::new();
        must("update(one slice of more than 4 GiB)", || {
            g.update(&v);
        })?;
        ensure_eq!(g.input_size(), n as u64, "input_size() after one slice of 2^32+{} bytes", c.over);
        check_generator_output(&g, &rb, &format!("one slice of 2^32+{} bytes", c.over))?;
    } else {
        let h = must("hash_buf(one slice of more than 4 GiB)", || ssdeep::hash_buf(&v))?.map_err(|e| format!("hash_buf failed: {:?}", e))?;
        ensure_eq!(h.to_string(), oracle::fmt::format_hash(rb.log, &rb.bh1, &rb.bh2_trunc), "hash_buf of one slice of 2^32+{} bytes", c.over);
    }
    st.class(&format!("index={:02}", rb.log));
    st.class(&format!("pieces_sel={}", piece_class(s.cnt_sel)));
    if s.cnt_sel >= 1 {
        st.nontrivial(oracle::fingerprint(format!("{:?}", c).as_bytes()));
    }
    Ok(())
}

/// Totals at and beyond 2^64 bytes (zero prefix through the hook, the last step through a real update form): the size
/// counter must not come round to a small number - such an input is above the limit like any other.
#[derive(Debug, Clone, serde::Serialize, serde::Deserialize)]
pub struct BeyondU64 {
    /// the hook establishes a prefix of u64::MAX - short zero bytes
    pub short: u64,
    /// bytes fed afterwards
    pub more: u32,
    /// 0 update, 1 update_by_iter, 2 update_by_byte, 3 += slice
    pub form: u8,
}

pub fn eval_beyond_u64(c: &BeyondU64, st: &mut Stats) -> Result<(), String> {
    let mut g = must("verif_new_with_prefix_zeroes", || Generator::verif_new_with_prefix_zeroes(u64::MAX - c.short))?;
    let data: Vec<u8> = (0..c.more).map(|i| (i as u8).wrapping_mul(29) ^ 0x41).collect();
    match c.form % 4 {
        0 => must("update", || {
            g.update(&data);
        })?,
        1 => must("update_by_iter", || {
            g.update_by_iter(data.iter().copied());
        })?,
        2 => must("update_by_byte", || {
            for &b in &data {
                g.update_by_byte(b);
            }
        })?,
        _ => must("+= slice", || {
            g += &data[..];
        })?,
    }
    let what = format!("2^64 - 1 - {} zero bytes and {} more bytes (form {})", c.short, c.more, c.form % 4);
    ensure!(must("input_size", || g.input_size())? > MAX_INPUT_SIZE, "input_size() after {} is not above the limit", what);
    ensure!(!must("may_warn_about_small_input_size", || g.may_warn_about_small_input_size())?, "may_warn_about_small_input_size() after {}", what);
    let f1 = must("finalize", || g.finalize())?;
    ensure_eq!(f1.map(|h| h.to_string()), Err(GeneratorError::InputSizeTooLarge), "finalize() after {}", what);
    let f2 = must("finalize_without_truncation", || g.finalize_without_truncation())?;
    ensure_eq!(f2.map(|h| h.to_string()), Err(GeneratorError::InputSizeTooLarge), "finalize_without_truncation() after {}", what);
    st.class(if c.more as u64 > c.short { "total>=2^64" } else { "total<2^64" });
    st.nontrivial(oracle::fingerprint(format!("{:?}", c).as_bytes()));
    Ok(())
}

pub fn subchecks(tier: Tier) -> Vec<SubCheck> {
    let wt_seed = move || -> u64 {
        std::env::var("VERIF_SEED").ok().and_then(|s| s.trim().parse::<i128>().ok()).map(|v| v as u64).unwrap_or(0) ^ 0xC13
    };
    let cases = tier.pick(200_000, 4_000_000);
    let rule = "total size on / around every border 192*2^n (n = 0..30, delta -2..2), around 96 GiB and 192 GiB (limit, limit +- k), 4095/4096/4097, small and log-uniform sizes; content = one or two word programs aimed at the levels around the initial index (incl. level-30 words) embedded in zero bytes fed through the hook, split before/between the programs, size declared before / after / not at all; oracle = reference models A and B with closed-form zero runs; non-trivial = size > 2^24 with >= 32 pieces at the selected level, or a size above the limit; distinct by case";
    let main = SubCheck {
        name: "sizes_vs_models",
        run: Box::new(move |ctx| {
            let mut r = run_generated(ctx, "sizes_vs_models", rule, cases, move || strategy(wt_seed()), eval);
            if r.failure.is_none() {
                // the generator must reach every block-size index; otherwise the check is vacuous for it
                let missing: Vec<String> = (0..31).map(|i| format!("index={:02}", i)).filter(|k| !r.stats.classes.contains_key(k)).collect();
                if !missing.is_empty() {
                    r.failure = Some(crate::engine::Failure {
                        subcheck: "sizes_vs_models".into(),
                        message: format!("HARNESS-PANIC: generator does not reach {:?}", missing),
                        case: serde_json::Value::Null,
                        harness_fault: true,
                    });
                }
            }
            r
        }),
        replay: Box::new(|v| {
            let case: Case = serde_json::from_value(v.clone()).map_err(|e| format!("cannot decode case: {}", e))?;
            let mut st = Stats::default();
            eval(&case, &mut st)
        }),
    };
    let max_log = tier.pick(24u32, 28u32);
    vec![
        generated(
            "hook_equiv",
            "validates the hook, not the library: (state-establishing program, n zero bytes, continuation): verif_feed_zeroes(n) vs really feeding n zeros in mixed update forms: identical {:?} state and identical behaviour on the continuation; n dense in 0..=4096, sampled up to 2^24 (quick) / 2^28 (thorough); non-trivial = n > 7; distinct by case",
            tier.pick(6_000, 12_000),
            move || hook_strategy(wt_seed(), max_log),
            eval_hook,
        ),
        main,
        crate::engine::listed(
            "totals_around_2_pow_64",
            "zero prefix of 2^64 - 1 - s bytes through the hook (s = 0..40), then m = 0..64 more bytes by each update form: the total reaches or passes 2^64; finalize* must return the input-too-large error, input_size() must stay above the limit and the small-input query false; non-trivial = all; distinct by case",
            {
                let mut v = Vec::new();
                for short in [0u64, 1, 2, 6, 7, 8, 40] {
                    for more in [0u32, 1, 2, 7, 8, 9, 41, 64] {
                        for form in 0u8..4 {
                            v.push(BeyondU64 { short, more, form });
                        }
                    }
                }
                v
            },
            eval_beyond_u64,
        ),
        crate::engine::listed(
            "single_slice_beyond_4gib",
            "one update(&[u8]) / hash_buf call with a real slice of 2^32 + k bytes (zeros, noise at the start, words of levels 19..27 over the 4 KiB before byte 2^32 and everything after it): hash, input_size vs the reference models with the zero run in closed form; non-trivial = >= 1 piece at the selected level; distinct by case",
            tier.pick(
                vec![HugeSlice { over: 777, seed: 11, form: 0 }],
                vec![HugeSlice { over: 777, seed: 11, form: 0 }, HugeSlice { over: 9, seed: 12, form: 1 }, HugeSlice { over: 70001, seed: 13, form: 0 }],
            ),
            eval_huge_slice,
        ),
    ]
}
