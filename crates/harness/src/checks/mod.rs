//! Property registry.

use crate::engine::{SubCheck, Tier};
use serde_json::{json, Value};

pub mod c01;
pub mod c02;
pub mod c03;
pub mod c04;
pub mod c05;
pub mod c06;
pub mod c07;
pub mod c08;
pub mod c09;
pub mod c10;
pub mod c11;
pub mod c12;
pub mod c13;
pub mod c14;
pub mod c15;
pub mod c16;
pub mod c17;
pub mod c18;
pub mod c19;
pub mod c20;

pub const ALL: &[&str] = &["C01", "C02", "C03", "C04", "C05", "C06", "C07", "C08", "C09", "C10", "C11", "C12", "C13", "C14", "C15", "C16", "C17", "C18", "C19", "C20"];

pub fn subchecks(prop: &str, tier: Tier) -> Vec<SubCheck> {
    match prop {
        "C01" => c01::subchecks(tier),
        "C02" => c02::subchecks(tier),
        "C03" => c03::subchecks(tier),
        "C04" => c04::subchecks(tier),
        "C05" => c05::subchecks(tier),
        "C06" => c06::subchecks(tier),
        "C07" => c07::subchecks(tier),
        "C08" => c08::subchecks(tier),
        "C09" => c09::subchecks(tier),
        "C10" => c10::subchecks(tier),
        "C11" => c11::subchecks(tier),
        "C12" => c12::subchecks(tier),
        "C13" => c13::subchecks(tier),
        "C14" => c14::subchecks(tier),
        "C15" => c15::subchecks(tier),
        "C16" => c16::subchecks(tier),
        "C17" => c17::subchecks(tier),
        "C18" => c18::subchecks(tier),
        "C19" => c19::subchecks(tier),
        "C20" => c20::subchecks(tier),
        _ => Vec::new(),
    }
}

/// oracle calibration needed by a property
pub fn calibrate(prop: &str) -> Result<Value, String> {
    match prop {
        "C01" | "C03" | "C12" | "C13" | "C18" => crate::calib::calibrate_gen(),
        "C02" | "C10" => crate::calib::calibrate_cmp(),
        _ => Ok(json!({})),
    }
}

pub fn level(prop: &str) -> &'static str {
    match prop {
        "C18" => "fault_enumeration",
        _ => "exploration",
    }
}

/// run the same sub-checks also in the assertion-enabled optimised build?
pub fn wants_relda(prop: &str, tier: Tier) -> bool {
    match tier {
        Tier::Thorough => prop != "C14",
        Tier::Quick => matches!(prop, "C11" | "C04"),
    }
}

pub fn assumptions(prop: &str) -> Vec<String> {
    let mut v = vec![
        "the reference models in /verif/crates/oracle are correct (calibrated on libfuzzy golden vectors / documented scores at every run)".to_string(),
        "rustc/LLVM compile the harness and the library faithfully; x86_64 Linux only".to_string(),
        "held on everything explored: generated search never establishes absence outside enumerated sub-checks".to_string(),
    ];
    match prop {
        "C01" => v.push("real feeding reaches block-size indices up to ~13 (quick) / ~17 (thorough); higher indices are C13's job".to_string()),
        _ => {}
    }
    v
}
