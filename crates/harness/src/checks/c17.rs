//! C17 - re-used comparison targets carry nothing over from earlier hashes.
#![allow(deprecated)]

use crate::api::build_norm;
use crate::engine::{generated, must, pick_index, Stats, SubCheck, Tier};
use crate::gens::{self, RawH};
use proptest::prelude::*;
use serde::{Deserialize, Serialize};
use ssdeep::internal_comparison::{BlockHashPositionArray, BlockHashPositionArrayData, BlockHashPositionArrayImpl};
use ssdeep::{DualFuzzyHash, FuzzyHash, FuzzyHashCompareTarget, LongDualFuzzyHash, LongFuzzyHash};

#[derive(Debug, Clone, Serialize, Deserialize)]
pub struct Case {
    /// the history of hashes (collapsed); each with the kind of source object (0..=5)
    pub history: Vec<(RawH, u8)>,
    /// extra probes (collapsed)
    pub probes: Vec<RawH>,
    /// start from new() (false) or From(first) (true)
    pub start_from: bool,
}

fn init(t: &mut FuzzyHashCompareTarget, h: &RawH, kind: u8) -> Result<&'static str, String> {
    let short_ok = h.bh2.len() <= 32;
    let k = if short_ok { kind % 6 } else { [1u8, 3, 5][(kind % 3) as usize] };
    match k {
        0 => {
            let x: FuzzyHash = build_norm::<64, 32>(h)?;
            must("init_from(&FuzzyHash)", || t.init_from(&x))?;
            Ok("init_from(FuzzyHash)")
        }
        1 => {
            let x: LongFuzzyHash = build_norm::<64, 64>(h)?;
            must("init_from(&LongFuzzyHash)", || t.init_from(&x))?;
            Ok("init_from(LongFuzzyHash)")
        }
        2 => {
            let x: FuzzyHash = build_norm::<64, 32>(h)?;
            let d = must("DualFuzzyHash::from_normalized", || DualFuzzyHash::from_normalized(&x))?;
            must("init_from(&DualFuzzyHash)", || t.init_from(&d))?;
            Ok("init_from(DualFuzzyHash)")
        }
        3 => {
            let x: LongFuzzyHash = build_norm::<64, 64>(h)?;
            let d = must("LongDualFuzzyHash::from_normalized", || LongDualFuzzyHash::from_normalized(&x))?;
            must("init_from(&LongDualFuzzyHash)", || t.init_from(&d))?;
            Ok("init_from(LongDualFuzzyHash)")
        }
        4 => {
            let x: FuzzyHash = build_norm::<64, 32>(h)?;
            *t = must("From<FuzzyHash>", || FuzzyHashCompareTarget::from(x))?;
            Ok("From(FuzzyHash)")
        }
        _ => {
            let x: LongFuzzyHash = build_norm::<64, 64>(h)?;
            must("init_from(LongFuzzyHash by value)", || t.init_from(x))?;
            Ok("init_from(LongFuzzyHash by value)")
        }
    }
}

pub fn eval(case: &Case, st: &mut Stats) -> Result<(), String> {
    if case.history.is_empty() {
        return Ok(());
    }
    let mut t = if case.start_from {
        let x: LongFuzzyHash = build_norm::<64, 64>(&case.history[0].0)?;
        must("From", || FuzzyHashCompareTarget::from(&x))?
    } else {
        must("new", FuzzyHashCompareTarget::new)?
    };
    let mut seen: Vec<RawH> = Vec::new();
    let mut nt = false;
    for (step, (h, kind)) in case.history.iter().enumerate() {
        let how = init(&mut t, h, *kind)?;
        st.class(how);
        let hk: LongFuzzyHash = build_norm::<64, 64>(h)?;
        let fresh = must("From", || FuzzyHashCompareTarget::from(&hk))?;
        let ctx = format!("step {} ({}) hash {} after {:?}", step, how, h.text(), seen.iter().map(|s| s.text()).collect::<Vec<_>>());
        ensure!(must("is_valid", || t.is_valid())?, "re-used target is not valid: {}", ctx);
        ensure!(must("full_eq", || t.full_eq(&fresh))?, "re-used target is not full_eq to a fresh one: {}", ctx);
        ensure!(must("full_eq", || fresh.full_eq(&t))?, "fresh target is not full_eq to the re-used one: {}", ctx);
        ensure!(must("is_equiv", || t.is_equiv(&hk))?, "re-used target does not report equivalence to its hash: {}", ctx);
        ensure_eq!(t.log_block_size(), h.log, "log_block_size(): {}", ctx);
        ensure_eq!(t.block_size() as u64, 3u64 << h.log, "block_size(): {}", ctx);
        // probes: the earlier hashes, the given probes and partners derived from them
        let mut probes: Vec<RawH> = seen.clone();
        probes.extend(case.probes.iter().cloned());
        probes.push(h.clone());
        for p in probes.clone() {
            for d in [-1i16, 0, 1] {
                let mut q = p.clone();
                q.log = (h.log as i16 + d).clamp(0, 30) as u8;
                probes.push(q);
            }
        }
        for p in &probes {
            let x: LongFuzzyHash = build_norm::<64, 64>(p)?;
            let e1 = must("is_equiv", || t.is_equiv(&x))?;
            ensure_eq!(e1, p == h, "is_equiv({}) on the re-used target: {}", p.text(), ctx);
            let (s1, s2) = (must("compare", || t.compare(&x))?, must("compare", || fresh.compare(&x))?);
            ensure_eq!(s1, s2, "compare({}) re-used vs fresh: {}", p.text(), ctx);
            let (c1, c2) = (must("is_comparison_candidate", || t.is_comparison_candidate(&x))?, must("is_comparison_candidate", || fresh.is_comparison_candidate(&x))?);
            ensure_eq!(c1, c2, "is_comparison_candidate({}) re-used vs fresh: {}", p.text(), ctx);
            // and the reference score
            let exp = oracle::cmp::compare_split(
                &oracle::cmp::SplitHash { block_size: 3u64 << h.log, bh1: h.bh1.clone(), bh2: h.bh2.clone() },
                &oracle::cmp::SplitHash { block_size: 3u64 << p.log, bh1: p.bh1.clone(), bh2: p.bh2.clone() },
            );
            ensure_eq!(s1, exp, "compare({}) vs the reference score: {}", p.text(), ctx);
        }
        // position arrays inside the target
        ensure!(must("is_equiv", || t.block_hash_1().is_equiv(&h.bh1))?, "block_hash_1().is_equiv(own string): {}", ctx);
        ensure!(must("is_equiv", || t.block_hash_2().is_equiv(&h.bh2))?, "block_hash_2().is_equiv(own string): {}", ctx);
        ensure_eq!(t.block_hash_1().len() as usize, h.bh1.len(), "block_hash_1().len(): {}", ctx);
        ensure_eq!(t.block_hash_2().len() as usize, h.bh2.len(), "block_hash_2().len(): {}", ctx);
        for prev in &seen {
            let shorter = h.bh1.len() < prev.bh1.len() || h.bh2.len() < prev.bh2.len();
            let other_syms = prev.bh1.iter().chain(prev.bh2.iter()).any(|s| !h.bh1.contains(s) && !h.bh2.contains(s));
            if shorter || other_syms {
                nt = true;
            }
        }
        seen.push(h.clone());
    }
    if case.history.len() >= 2 && nt {
        st.nontrivial(oracle::fingerprint(format!("{:?}", case.history).as_bytes()));
    }
    st.class(&format!("history_len={}", case.history.len().min(6)));
    Ok(())
}

#[derive(Debug, Clone, Serialize, Deserialize)]
pub enum PaOp {
    Init(Vec<u8>),
    Clear,
    /// an initialisation that must be refused (a symbol >= 64 after some valid ones): it is one of the
    /// "earlier initialisations" after which the object must still behave like a fresh one
    InitRefused(Vec<u8>, u8),
}

#[derive(Debug, Clone, Serialize, Deserialize)]
pub struct PaCase {
    pub ops: Vec<PaOp>,
    pub probes: Vec<Vec<u8>>,
}

pub fn eval_pa(case: &PaCase, st: &mut Stats) -> Result<(), String> {
    let mut pa = must("new", BlockHashPositionArray::new)?;
    let mut cur: Vec<u8> = Vec::new();
    let mut history: Vec<Vec<u8>> = Vec::new();
    let mut nt = false;
    for (step, op) in case.ops.iter().enumerate() {
        match op {
            PaOp::Init(s) => {
                must("init_from", || pa.init_from(s))?;
                if history.iter().any(|p| p.len() > s.len() || p.iter().any(|c| !s.contains(c))) {
                    nt = true;
                }
                cur = s.clone();
                history.push(s.clone());
                st.class("pa_init_from");
            }
            PaOp::Clear => {
                must("clear", || pa.clear())?;
                cur.clear();
                ensure!(pa == BlockHashPositionArray::new(), "clear() does not give the state of new() (step {})", step);
                st.class("pa_clear");
            }
            PaOp::InitRefused(s, bad) => {
                let mut v = s.clone();
                v.push(64 + (bad % 192));
                v.extend_from_slice(s);
                let r = crate::engine::lib(|| pa.init_from(&v));
                ensure!(r.is_err(), "init_from() accepted a string with the symbol {} (step {})", v[s.len()], step);
                st.class("pa_init_refused");
                // what the object represents now is not specified by this property (C11 judges its validity);
                // every later initialisation has to behave as on a fresh object
                continue;
            }
        }
        let ctx = format!("step {} string {:?} after {:?}", step, cur, &history[..history.len().saturating_sub(1)]);
        // bit-level reference
        let rep = must("representation", || *pa.representation())?;
        for c in 0..64usize {
            let mut exp: u64 = 0;
            for (i, &s) in cur.iter().enumerate() {
                if s as usize == c {
                    exp |= 1u64 << i;
                }
            }
            ensure_eq!(rep[c], exp, "representation()[{}]: {}", c, ctx);
        }
        ensure_eq!(pa.len() as usize, cur.len(), "len(): {}", ctx);
        ensure_eq!(pa.is_empty(), cur.is_empty(), "is_empty(): {}", ctx);
        ensure!(must("is_valid", || pa.is_valid())?, "is_valid() false: {}", ctx);
        ensure_eq!(must("is_valid_and_normalized", || pa.is_valid_and_normalized())?, oracle::fmt::is_collapsed(&cur), "is_valid_and_normalized(): {}", ctx);
        let mut fresh = BlockHashPositionArray::new();
        fresh.init_from(&cur);
        ensure!(pa == fresh, "re-used position array != fresh one: {}", ctx);
        let mut probes: Vec<Vec<u8>> = case.probes.clone();
        probes.extend(history.iter().cloned());
        probes.push(cur.clone());
        if !cur.is_empty() {
            let mut v = cur.clone();
            v.pop();
            probes.push(v);
            let mut v = cur.clone();
            v[0] = (v[0] + 1) % 64;
            probes.push(v);
        }
        if cur.len() < 64 {
            let mut v = cur.clone();
            v.push(0);
            probes.push(v);
        }
        for p in &probes {
            ensure_eq!(must("is_equiv", || pa.is_equiv(p))?, *p == cur, "is_equiv({:?}): {}", p, ctx);
            ensure_eq!(must("edit_distance", || pa.edit_distance(p))? as usize, oracle::cmp::indel_distance(&cur, p), "edit_distance({:?}): {}", p, ctx);
            ensure_eq!(must("has_common_substring", || pa.has_common_substring(p))?, oracle::cmp::has_common_7gram(&cur, p), "has_common_substring({:?}): {}", p, ctx);
        }
    }
    if case.ops.len() >= 2 && nt {
        st.nontrivial(oracle::fingerprint(format!("{:?}", case.ops).as_bytes()));
    }
    Ok(())
}

fn hist_entry() -> impl Strategy<Value = (RawH, u8)> {
    (prop_oneof![2 => gens::norm_hash(64), 2 => gens::norm_hash(32)], any::<u8>())
}

/// make some history entries close relatives of their predecessor (same block size and block hash 1,
/// block hash 2 equal to block hash 1, shifted or swapped strings, same length built from the old tail):
/// the situations in which a "nothing changed" shortcut would wrongly fire
fn relate(history: &mut [(RawH, u8)], codes: &[u8]) {
    for i in 1..history.len() {
        let prev = history[i - 1].0.clone();
        let h = &mut history[i].0;
        match codes.get(i).copied().unwrap_or(0) % 12 {
            4 => {
                h.log = prev.log;
                h.bh1 = prev.bh1.clone();
            }
            5 => {
                *h = prev.clone();
                h.bh2 = prev.bh1.clone();
            }
            6 => {
                *h = prev.clone();
                if h.bh1.len() >= 2 {
                    h.bh1.remove(0);
                    let l = *h.bh1.last().unwrap();
                    h.bh1.push(l);
                }
            }
            7 => {
                *h = prev.clone();
                std::mem::swap(&mut h.bh1, &mut h.bh2);
            }
            8 => {
                *h = prev.clone();
                let n = h.bh2.len();
                if n >= 2 {
                    let tail: Vec<u8> = prev.bh2[n / 2..].to_vec();
                    h.bh2 = (0..n).map(|k| tail[k % tail.len()]).collect();
                }
            }
            9 => {
                *h = prev.clone();
                if h.bh2.len() >= 2 {
                    h.bh2.remove(0);
                    let l = *h.bh2.last().unwrap();
                    h.bh2.push(l);
                }
            }
            _ => {}
        }
        h.bh1.truncate(64);
        h.bh2.truncate(64);
        *h = h.collapsed();
    }
}

pub fn strategy() -> impl Strategy<Value = Case> {
    (
        (proptest::collection::vec(hist_entry(), 1..=5), proptest::collection::vec(any::<u8>(), 5)).prop_map(|(mut h, codes)| {
            relate(&mut h, &codes);
            h
        }),
        proptest::collection::vec((any::<u16>(), proptest::collection::vec(gens::edit(), 0..4)), 0..3),
        proptest::collection::vec(gens::norm_hash(64), 0..2),
        any::<bool>(),
    )
        .prop_map(|(history, derived, mut probes, start_from)| {
            // probes derived from hashes of the history (so that candidates and scores exist)
            for (i, e) in derived {
                let h = &history[pick_index(i, history.len())].0;
                probes.push(
                    RawH { log: h.log, bh1: gens::apply_edits(&h.bh1, &e, 64), bh2: gens::apply_edits(&h.bh2, &e, 64) }.collapsed(),
                );
                probes.push(RawH { log: h.log, bh1: gens::apply_edits(&h.bh2, &e, 64), bh2: gens::apply_edits(&h.bh1, &e, 64) }.collapsed());
            }
            Case { history, probes, start_from }
        })
}

pub fn subchecks(tier: Tier) -> Vec<SubCheck> {
    vec![
        generated(
            "target_reuse",
            "histories of 1..5 initialisations of one FuzzyHashCompareTarget (init_from with FuzzyHash / LongFuzzyHash / DualFuzzyHash / LongDualFuzzyHash by reference or value, From) over hashes of differing lengths and symbols; after each: valid, full_eq a fresh target, is_equiv exactly to its hash, same compare / is_comparison_candidate answers as the fresh target (and the reference score) against the earlier hashes, derived partners and probes in all block-size relations; non-trivial = history >= 2 whose current hash is shorter than, or lacks symbols of, an earlier one; distinct by history",
            tier.pick(400_000, 4_000_000),
            strategy,
            eval,
        ),
        generated(
            "position_array_reuse",
            "histories of init_from / clear on one BlockHashPositionArray: bit-level reference of representation(), len, is_empty, is_valid, is_valid_and_normalized <=> no run > 3, == fresh array, is_equiv exactly to the string, edit_distance / has_common_substring vs references on probes; non-trivial as above; distinct by history",
            tier.pick(600_000, 6_000_000),
            || {
                (
                    proptest::collection::vec(prop_oneof![6 => gens::block_hash(64).prop_map(PaOp::Init), 1 => Just(PaOp::Clear), 1 => (gens::block_hash(20), any::<u8>()).prop_map(|(s, b)| PaOp::InitRefused(s, b))], 1..=5),
                    proptest::collection::vec(gens::block_hash(64), 0..3),
                    proptest::collection::vec(any::<u8>(), 5),
                )
                    .prop_map(|(mut ops, probes, codes)| {
                        // relatives of the previous string: left / right shifts, permutations of its tail, same length
                        for i in 1..ops.len() {
                            let prev = match &ops[i - 1] {
                                PaOp::Init(s) => s.clone(),
                                _ => continue,
                            };
                            if prev.len() < 2 {
                                continue;
                            }
                            let n = prev.len();
                            let next = match codes[i] % 10 {
                                5 => {
                                    let mut v = prev[1..].to_vec();
                                    v.push(prev[n - 1]);
                                    Some(v)
                                }
                                6 => {
                                    let mut v = vec![prev[0]];
                                    v.extend_from_slice(&prev[..n - 1]);
                                    Some(v)
                                }
                                7 => Some((0..n).map(|k| prev[n / 2 + k % (n - n / 2)]).collect()),
                                8 => Some(Vec::new()),
                                _ => None,
                            };
                            if let Some(v) = next {
                                ops[i] = PaOp::Init(v);
                            }
                        }
                        PaCase { ops, probes }
                    })
            },
            eval_pa,
        ),
    ]
}
