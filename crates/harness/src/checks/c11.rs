//! C11 - no safe operation ever yields an invalid hash object.
#![allow(deprecated)]

use crate::api::{ref_valid, BHS, BHSs, CBHS, CBHSs};
use crate::engine::{generated, lib, listed, must, pick_index, Stats, SubCheck, Tier};
use crate::gens::{self, Prog, RawH};
use oracle::fmt::is_collapsed;
use proptest::prelude::*;
use serde::{Deserialize, Serialize};
use ssdeep::internal_comparison::{BlockHashPositionArray, BlockHashPositionArrayData};
use ssdeep::{
    DualFuzzyHash, FuzzyHash, FuzzyHashCompareTarget, FuzzyHashData, Generator, LongDualFuzzyHash, LongFuzzyHash,
    LongRawFuzzyHash, RawFuzzyHash,
};

// ------------------------------------------------------------------------------------------
// A. constructors with arguments that may be out of contract

#[derive(Debug, Clone, Serialize, Deserialize)]
pub struct CtorCase {
    /// 0 Raw, 1 LongRaw, 2 Norm, 3 LongNorm, 4 Dual, 5 LongDual, 6 position array
    pub ty: u8,
    /// 0 new_from_internals (block size), 1 near_raw (log), 2 raw arrays, 3 init_from_internals_raw on a used object
    pub ctor: u8,
    pub block_size: u32,
    pub log: u8,
    pub bh1: Vec<u8>,
    pub bh2: Vec<u8>,
    /// for the array constructors: declared lengths and the tail bytes
    pub len1: u8,
    pub len2: u8,
    pub tail: u8,
}

fn in_contract_slices(log_ok: bool, bh1: &[u8], bh2: &[u8], cap2: usize, norm: bool) -> bool {
    log_ok
        && bh1.len() <= 64
        && bh2.len() <= cap2
        && bh1.iter().all(|&s| s < 64)
        && bh2.iter().all(|&s| s < 64)
        && (!norm || (is_collapsed(bh1) && is_collapsed(bh2)))
}

fn judge_plain<const S1: usize, const S2: usize, const N: bool>(
    what: &str,
    r: Result<FuzzyHashData<S1, S2, N>, String>,
    contract: bool,
    exp: Option<(u8, &[u8], &[u8])>,
) -> Result<(), String>
where
    BHS<S1>: CBHS,
    BHS<S2>: CBHS,
    BHSs<S1, S2>: CBHSs,
{
    match r {
        Ok(h) => {
            ensure!(contract, "{} returned an object although its arguments violate the documented constraints (is_valid() = {:?})", what, lib(|| h.is_valid()));
            ensure!(must("is_valid", || h.is_valid())?, "{}: in-contract arguments but the object fails is_valid()", what);
            ensure!(ref_valid(&h), "{}: in-contract arguments but the object violates the documented invariants", what);
            if let Some((log, b1, b2)) = exp {
                ensure_eq!(h.log_block_size(), log, "{}: block size", what);
                ensure_eq!(h.block_hash_1(), b1, "{}: block hash 1", what);
                ensure_eq!(h.block_hash_2(), b2, "{}: block hash 2", what);
            }
            ensure!(must("full_eq", || h.full_eq(&h))?, "{}: full_eq(x, x) false", what);
            must("Debug", || format!("{:?}", h))?;
            Ok(())
        }
        Err(p) => {
            ensure!(!contract, "{} panicked on in-contract arguments: {}", what, p);
            Ok(())
        }
    }
}

fn ctor_plain<const S1: usize, const S2: usize, const N: bool>(c: &CtorCase, tyname: &str, st: &mut Stats) -> Result<(), String>
where
    BHS<S1>: CBHS,
    BHS<S2>: CBHS,
    BHSs<S1, S2>: CBHSs,
{
    let bs_ok = (0..31).any(|n| c.block_size as u64 == 3u64 << n);
    let log_ok = c.log < 31;
    match c.ctor % 4 {
        0 => {
            let contract = in_contract_slices(bs_ok, &c.bh1, &c.bh2, S2, N) && c.bh1.len() <= S1;
            let r = lib(|| FuzzyHashData::<S1, S2, N>::new_from_internals(c.block_size, &c.bh1, &c.bh2));
            let log = (c.block_size / 3).trailing_zeros() as u8;
            st.class(if contract { "ctor:in_contract" } else { "ctor:out_of_contract" });
            judge_plain(&format!("{}::new_from_internals({}, {:?}, {:?})", tyname, c.block_size, c.bh1, c.bh2), r, contract, Some((log, &c.bh1, &c.bh2)))
        }
        1 => {
            let contract = in_contract_slices(log_ok, &c.bh1, &c.bh2, S2, N) && c.bh1.len() <= S1;
            let r = lib(|| FuzzyHashData::<S1, S2, N>::new_from_internals_near_raw(c.log, &c.bh1, &c.bh2));
            st.class(if contract { "ctor:in_contract" } else { "ctor:out_of_contract" });
            judge_plain(&format!("{}::new_from_internals_near_raw({}, {:?}, {:?})", tyname, c.log, c.bh1, c.bh2), r, contract, Some((c.log, &c.bh1, &c.bh2)))
        }
        k => {
            // array forms: contents beyond the declared lengths are `tail`
            let mut a1 = [c.tail; S1];
            let mut a2 = [c.tail; S2];
            for (i, &s) in c.bh1.iter().take(S1).enumerate() {
                a1[i] = s;
            }
            for (i, &s) in c.bh2.iter().take(S2).enumerate() {
                a2[i] = s;
            }
            let (l1, l2) = (c.len1, c.len2);
            let contract = log_ok
                && (l1 as usize) <= S1
                && (l2 as usize) <= S2
                && a1[..(l1 as usize).min(S1)].iter().all(|&s| s < 64)
                && a2[..(l2 as usize).min(S2)].iter().all(|&s| s < 64)
                && a1[(l1 as usize).min(S1)..].iter().all(|&s| s == 0)
                && a2[(l2 as usize).min(S2)..].iter().all(|&s| s == 0)
                && (!N || (is_collapsed(&a1[..(l1 as usize).min(S1)]) && is_collapsed(&a2[..(l2 as usize).min(S2)])));
            st.class(if contract { "ctor:in_contract" } else { "ctor:out_of_contract" });
            let exp1: Vec<u8> = a1[..(l1 as usize).min(S1)].to_vec();
            let exp2: Vec<u8> = a2[..(l2 as usize).min(S2)].to_vec();
            if k == 2 {
                let r = lib(|| FuzzyHashData::<S1, S2, N>::new_from_internals_raw(c.log, &a1, &a2, l1, l2));
                judge_plain(&format!("{}::new_from_internals_raw({}, {:?}, {:?}, {}, {})", tyname, c.log, a1, a2, l1, l2), r, contract, Some((c.log, &exp1, &exp2)))
            } else {
                // on an object that already holds something
                let mut h = FuzzyHashData::<S1, S2, N>::new_from_internals_near_raw(7, &[1, 2, 3, 3, 3, 4], &[9, 8]);
                let before = h;
                let r = lib(|| h.init_from_internals_raw(c.log, &a1, &a2, l1, l2));
                match r {
                    Ok(()) => judge_plain(&format!("{}::init_from_internals_raw({}, {:?}, {:?}, {}, {})", tyname, c.log, a1, a2, l1, l2), Ok(h), contract, Some((c.log, &exp1, &exp2))),
                    Err(p) => {
                        ensure!(!contract, "{}::init_from_internals_raw panicked on in-contract arguments: {}", tyname, p);
                        // a refused initialisation must not leave a corrupted object behind
                        ensure!(must("is_valid", || h.is_valid())?, "{}::init_from_internals_raw panicked and left an invalid object behind", tyname);
                        ensure!(h.full_eq(&before), "{}::init_from_internals_raw panicked but modified the object", tyname);
                        Ok(())
                    }
                }
            }
        }
    }
}

macro_rules! ctor_dual {
    ($dual:ty, $s2:expr, $c:expr, $st:expr) => {{
        let c: &CtorCase = $c;
        let bs_ok = (0..31).any(|n| c.block_size as u64 == 3u64 << n);
        let (r, contract, log) = if c.ctor % 2 == 0 {
            (
                lib(|| <$dual>::new_from_internals(c.block_size, &c.bh1, &c.bh2)),
                in_contract_slices(bs_ok, &c.bh1, &c.bh2, $s2, false),
                (c.block_size / 3).trailing_zeros() as u8,
            )
        } else {
            (lib(|| <$dual>::new_from_internals_near_raw(c.log, &c.bh1, &c.bh2)), in_contract_slices(c.log < 31, &c.bh1, &c.bh2, $s2, false), c.log)
        };
        $st.class(if contract { "ctor:in_contract" } else { "ctor:out_of_contract" });
        let what = format!("{}::new_from_internals*({} / {}, {:?}, {:?})", stringify!($dual), c.block_size, c.log, c.bh1, c.bh2);
        match r {
            Ok(d) => {
                ensure!(contract, "{} returned an object although its arguments violate the documented constraints (is_valid() = {:?})", what, lib(|| d.is_valid()));
                ensure!(must("is_valid", || d.is_valid())?, "{}: in-contract arguments but the object fails is_valid()", what);
                let raw = must("to_raw_form", || d.to_raw_form())?;
                ensure_eq!(raw.log_block_size(), log, "{}: block size", what);
                ensure_eq!(raw.block_hash_1(), &c.bh1[..], "{}: raw block hash 1", what);
                ensure_eq!(raw.block_hash_2(), &c.bh2[..], "{}: raw block hash 2", what);
                ensure!(ref_valid(d.as_normalized()), "{}: normalised part violates the invariants", what);
                must("Debug", || format!("{:?}", d))?;
            }
            Err(p) => {
                ensure!(!contract, "{} panicked on in-contract arguments: {}", what, p);
            }
        }
    }};
}

pub fn eval_ctor(c: &CtorCase, st: &mut Stats) -> Result<(), String> {
    match c.ty % 7 {
        0 => ctor_plain::<64, 32, false>(c, "RawFuzzyHash", st)?,
        1 => ctor_plain::<64, 64, false>(c, "LongRawFuzzyHash", st)?,
        2 => ctor_plain::<64, 32, true>(c, "FuzzyHash", st)?,
        3 => ctor_plain::<64, 64, true>(c, "LongFuzzyHash", st)?,
        4 => ctor_dual!(DualFuzzyHash, 32, c, st),
        5 => ctor_dual!(LongDualFuzzyHash, 64, c, st),
        _ => {
            let contract = c.bh1.len() <= 64 && c.bh1.iter().all(|&s| s < 64);
            st.class(if contract { "ctor:in_contract" } else { "ctor:out_of_contract" });
            let mut pa = BlockHashPositionArray::new();
            pa.init_from(&[1, 2, 3]);
            let r = lib(|| pa.init_from(&c.bh1));
            match r {
                Ok(()) => {
                    ensure!(contract, "BlockHashPositionArray::init_from({:?}) returned although the argument is out of contract", c.bh1);
                    ensure!(must("is_valid", || pa.is_valid())?, "BlockHashPositionArray::init_from({:?}): invalid object", c.bh1);
                }
                Err(p) => {
                    ensure!(!contract, "BlockHashPositionArray::init_from({:?}) panicked on an in-contract argument: {}", c.bh1, p);
                    ensure!(must("is_valid", || pa.is_valid())?, "BlockHashPositionArray::init_from panicked and left an invalid object behind");
                }
            }
        }
    }
    st.class(&format!("ctor_ty={}", c.ty % 7));
    st.nontrivial(oracle::fingerprint(format!("{:?}", c).as_bytes()));
    Ok(())
}

fn ctor_strategy() -> impl Strategy<Value = CtorCase> {
    let sym = prop_oneof![20 => 0u8..64, 1 => 64u8..=255];
    let bh = |cap: usize| {
        prop_oneof![
            6 => gens::block_hash(cap),
            2 => proptest::collection::vec(sym.clone(), 0..=cap),
            1 => proptest::collection::vec(0u8..64, cap..=cap + 3),
            1 => (gens::block_hash(cap), any::<u16>(), 64u8..=255).prop_map(|(mut v, p, bad)| {
                if !v.is_empty() {
                    let i = pick_index(p, v.len());
                    v[i] = bad;
                }
                v
            }),
        ]
    };
    (
        0u8..7,
        0u8..4,
        prop_oneof![6 => (0u32..31).prop_map(|n| 3u32 << n), 1 => any::<u32>(), 1 => (0u32..31, prop::sample::select(vec![-1i64, 1, 3])).prop_map(|(n, d)| ((3i64 << n) + d) as u32)],
        prop_oneof![8 => 0u8..31, 1 => 31u8..=255],
        bh(64),
        prop_oneof![1 => bh(32), 1 => bh(64)],
        prop_oneof![4 => Just(255u8), 1 => any::<u8>()],
        prop_oneof![4 => Just(255u8), 1 => any::<u8>()],
        prop_oneof![6 => Just(0u8), 1 => any::<u8>()],
    )
        .prop_map(|(ty, ctor, block_size, log, bh1, bh2, l1, l2, tail)| {
            // 255 = "use the real length"
            let len1 = if l1 == 255 { bh1.len().min(255) as u8 } else { l1 % 70 };
            let len2 = if l2 == 255 { bh2.len().min(255) as u8 } else { l2 % 70 };
            CtorCase { ty, ctor, block_size, log, bh1, bh2, len1, len2, tail }
        })
}

// ------------------------------------------------------------------------------------------
// B. objects made of arbitrary bytes: validity checks, structural equality and Debug never panic

#[derive(Debug, Clone, Serialize, Deserialize)]
pub struct BytesCase {
    pub ty: u8,
    /// a valid hash to start from
    pub seed: RawH,
    /// (position, value) overwrites of the object's bytes; empty = keep valid
    pub pokes: Vec<(u16, u8)>,
    /// fully random bytes instead
    pub random: Option<u64>,
}

fn object_bytes<T: Copy>(start: &T, case: &BytesCase) -> Vec<u8> {
    let n = std::mem::size_of::<T>();
    let mut bytes = vec![0u8; n];
    unsafe {
        std::ptr::copy_nonoverlapping(start as *const T as *const u8, bytes.as_mut_ptr(), n);
    }
    if let Some(seed) = case.random {
        oracle::words::SplitMix(seed).fill(&mut bytes);
    }
    for &(p, v) in &case.pokes {
        let i = pick_index(p, n);
        bytes[i] = v;
    }
    bytes
}

/// All fields of these types are plain integers (u8 / [u8; N] / u64 arrays), so every bit
/// pattern is a value of the type; the property says validity checks, structural equality and
/// debug formatting never panic on any of them.
fn from_bytes<T: Copy>(bytes: &[u8]) -> T {
    assert_eq!(bytes.len(), std::mem::size_of::<T>());
    unsafe { std::ptr::read_unaligned(bytes.as_ptr() as *const T) }
}

fn bytes_plain<const S1: usize, const S2: usize, const N: bool>(case: &BytesCase, st: &mut Stats, tyname: &str) -> Result<(), String>
where
    BHS<S1>: CBHS,
    BHS<S2>: CBHS,
    BHSs<S1, S2>: CBHSs,
{
    let mut s = case.seed.clone();
    s.bh2.truncate(S2);
    if N {
        s = s.collapsed();
    }
    let start = FuzzyHashData::<S1, S2, N>::new_from_internals_near_raw(s.log, &s.bh1, &s.bh2);
    let h: FuzzyHashData<S1, S2, N> = from_bytes(&object_bytes(&start, case));
    let v = lib(|| h.is_valid()).map_err(|p| format!("{}::is_valid() panicked on an arbitrary object: {}", tyname, p))?;
    let rv = ref_valid(&h);
    ensure_eq!(v, rv, "{}::is_valid() disagrees with the documented invariants (log {}, lens {}/{}, arrays {:?} / {:?})", tyname, h.log_block_size(), h.block_hash_1_len(), h.block_hash_2_len(), h.block_hash_1_as_array(), h.block_hash_2_as_array());
    lib(|| h.full_eq(&h)).map_err(|p| format!("{}::full_eq() panicked on an arbitrary object: {}", tyname, p))?;
    lib(|| h.full_eq(&start)).map_err(|p| format!("{}::full_eq() panicked on an arbitrary object: {}", tyname, p))?;
    lib(|| format!("{:?}", h)).map_err(|p| format!("{} Debug formatting panicked on an arbitrary object: {}", tyname, p))?;
    st.class(if v { "bytes:valid" } else { "bytes:invalid" });
    Ok(())
}

macro_rules! bytes_dual {
    ($dual:ty, $s2:expr, $case:expr, $st:expr) => {{
        let case: &BytesCase = $case;
        let mut s = case.seed.clone();
        s.bh2.truncate($s2);
        let start = <$dual>::new_from_internals_near_raw(s.log, &s.bh1, &s.bh2);
        let d: $dual = from_bytes(&object_bytes(&start, case));
        let v = lib(|| d.is_valid()).map_err(|p| format!("{}::is_valid() panicked on an arbitrary object: {}", stringify!($dual), p))?;
        lib(|| format!("{:?}", d)).map_err(|p| format!("{} Debug formatting panicked on an arbitrary object: {}", stringify!($dual), p))?;
        if v {
            // a valid dual is the canonical encoding of its raw form
            ensure!(ref_valid(d.as_normalized()), "{}: is_valid() true but the normalised part violates the invariants", stringify!($dual));
            let raw = must("to_raw_form of a valid dual", || d.to_raw_form())?;
            ensure!(must("is_valid", || raw.is_valid())?, "{}: valid dual expands to an invalid raw hash", stringify!($dual));
            let again = must("from_raw_form", || <$dual>::from_raw_form(&raw))?;
            ensure!(again == d, "{}: is_valid() true but the object is not the canonical encoding of its own raw form ({:?})", stringify!($dual), d);
            $st.class("bytes:valid");
        } else {
            $st.class("bytes:invalid");
        }
    }};
}

pub fn eval_bytes(case: &BytesCase, st: &mut Stats) -> Result<(), String> {
    match case.ty % 8 {
        0 => bytes_plain::<64, 32, false>(case, st, "RawFuzzyHash")?,
        1 => bytes_plain::<64, 64, false>(case, st, "LongRawFuzzyHash")?,
        2 => bytes_plain::<64, 32, true>(case, st, "FuzzyHash")?,
        3 => bytes_plain::<64, 64, true>(case, st, "LongFuzzyHash")?,
        4 => bytes_dual!(DualFuzzyHash, 32, case, st),
        5 => bytes_dual!(LongDualFuzzyHash, 64, case, st),
        6 => {
            let s = case.seed.collapsed();
            let n = LongFuzzyHash::new_from_internals_near_raw(s.log, &s.bh1, &s.bh2);
            let start = FuzzyHashCompareTarget::from(&n);
            // FuzzyHashCompareTarget is not Copy: go through raw bytes
            let nbytes = std::mem::size_of::<FuzzyHashCompareTarget>();
            let mut bytes = vec![0u8; nbytes];
            unsafe { std::ptr::copy_nonoverlapping(&start as *const _ as *const u8, bytes.as_mut_ptr(), nbytes) };
            if let Some(seed) = case.random {
                oracle::words::SplitMix(seed).fill(&mut bytes);
            }
            for &(p, v) in &case.pokes {
                let i = pick_index(p, nbytes);
                bytes[i] = v;
            }
            let t: FuzzyHashCompareTarget = unsafe { std::ptr::read_unaligned(bytes.as_ptr() as *const FuzzyHashCompareTarget) };
            let v = lib(|| t.is_valid()).map_err(|p| format!("FuzzyHashCompareTarget::is_valid() panicked on an arbitrary object: {}", p))?;
            lib(|| t.full_eq(&start)).map_err(|p| format!("FuzzyHashCompareTarget::full_eq() panicked: {}", p))?;
            lib(|| format!("{:?}", t)).map_err(|p| format!("FuzzyHashCompareTarget Debug panicked: {}", p))?;
            st.class(if v { "bytes:valid" } else { "bytes:invalid" });
        }
        _ => {
            let mut start = BlockHashPositionArray::new();
            start.init_from(&case.seed.bh1);
            let nbytes = std::mem::size_of::<BlockHashPositionArray>();
            let mut bytes = vec![0u8; nbytes];
            unsafe { std::ptr::copy_nonoverlapping(&start as *const _ as *const u8, bytes.as_mut_ptr(), nbytes) };
            if let Some(seed) = case.random {
                oracle::words::SplitMix(seed).fill(&mut bytes);
            }
            for &(p, v) in &case.pokes {
                let i = pick_index(p, nbytes);
                bytes[i] = v;
            }
            let pa: BlockHashPositionArray = unsafe { std::ptr::read_unaligned(bytes.as_ptr() as *const BlockHashPositionArray) };
            let v = lib(|| pa.is_valid()).map_err(|p| format!("BlockHashPositionArray::is_valid() panicked on an arbitrary object: {}", p))?;
            let vn = lib(|| pa.is_valid_and_normalized()).map_err(|p| format!("is_valid_and_normalized() panicked: {}", p))?;
            ensure!(!vn || v, "is_valid_and_normalized() true but is_valid() false");
            lib(|| format!("{:?}", pa)).map_err(|p| format!("BlockHashPositionArray Debug panicked: {}", p))?;
            // reference validity: every position below len occupied by exactly one symbol, none above
            let rep = *pa.representation();
            let len = pa.len();
            let mut all: u64 = 0;
            let mut overlap = false;
            for w in rep.iter() {
                if all & w != 0 {
                    overlap = true;
                }
                all |= w;
            }
            let expect_mask = if len >= 64 { u64::MAX } else { (1u64 << len) - 1 };
            let rv = len <= 64 && !overlap && all == expect_mask;
            ensure_eq!(v, rv, "BlockHashPositionArray::is_valid() disagrees with the definition (len {}, union {:#x})", len, all);
            st.class(if v { "bytes:valid" } else { "bytes:invalid" });
        }
    }
    st.class(&format!("bytes_ty={}", case.ty % 8));
    st.nontrivial(oracle::fingerprint(format!("{:?}", case).as_bytes()));
    Ok(())
}

fn bytes_strategy() -> impl Strategy<Value = BytesCase> {
    (
        0u8..8,
        gens::raw_hash(64),
        prop_oneof![1 => Just(vec![]), 6 => proptest::collection::vec((any::<u16>(), prop_oneof![3 => 0u8..=66, 1 => any::<u8>()]), 1..4)],
        prop::option::weighted(0.15, any::<u64>()),
    )
        .prop_map(|(ty, seed, pokes, random)| BytesCase { ty, seed, pokes, random })
}

// ------------------------------------------------------------------------------------------
// C. operation sequences over a pool of objects

#[derive(Debug, Clone, Serialize, Deserialize)]
pub enum Op {
    /// generate from bytes into the raw slots
    Generate(Prog),
    /// parse a text into slot `ty`
    Parse { ty: u8, text: Vec<u8> },
    /// checked constructor with possibly bad arguments into slot ty
    Construct(CtorCase),
    NormalizeInPlace { ty: u8 },
    /// conversion `sel` from slot `src` into the destination slot (which keeps its old content until then)
    Convert { src: u8, sel: u8 },
    TargetInit { src: u8 },
    PaInit { src: u8, second: bool },
    PaClear,
}

#[derive(Debug, Clone, Serialize, Deserialize)]
pub struct SeqCase {
    pub ops: Vec<Op>,
}

struct Pool {
    r: RawFuzzyHash,
    lr: LongRawFuzzyHash,
    n: FuzzyHash,
    ln: LongFuzzyHash,
    d: DualFuzzyHash,
    ld: LongDualFuzzyHash,
    t: FuzzyHashCompareTarget,
    pa: BlockHashPositionArray,
}

impl Pool {
    fn check_all(&self, after: &str) -> Result<(), String> {
        macro_rules! plain {
            ($x:expr, $name:expr) => {
                ensure!(must("is_valid", || $x.is_valid())?, "{} is invalid after {}: {:?}", $name, after, $x);
                ensure!(ref_valid(&$x), "{} violates the documented invariants after {}: {:?}", $name, after, $x);
                ensure!(must("full_eq", || $x.full_eq(&$x))?, "{}: full_eq(x, x) false after {}", $name, after);
                must("Debug", || format!("{:?}", $x))?;
            };
        }
        plain!(self.r, "RawFuzzyHash");
        plain!(self.lr, "LongRawFuzzyHash");
        plain!(self.n, "FuzzyHash");
        plain!(self.ln, "LongFuzzyHash");
        macro_rules! dual {
            ($x:expr, $name:expr) => {
                ensure!(must("is_valid", || $x.is_valid())?, "{} is invalid after {}: {:?}", $name, after, $x);
                ensure!(ref_valid($x.as_normalized()), "{}: normalised part violates the invariants after {}", $name, after);
                let raw = must("to_raw_form", || $x.to_raw_form())?;
                ensure!(ref_valid(&raw), "{} expands to an invalid raw hash after {}", $name, after);
                must("Debug", || format!("{:?}", $x))?;
            };
        }
        dual!(self.d, "DualFuzzyHash");
        dual!(self.ld, "LongDualFuzzyHash");
        ensure!(must("is_valid", || self.t.is_valid())?, "FuzzyHashCompareTarget is invalid after {}", after);
        ensure!(must("full_eq", || self.t.full_eq(&self.t))?, "target full_eq(x, x) false after {}", after);
        ensure!(must("is_valid", || self.pa.is_valid())?, "BlockHashPositionArray is invalid after {}", after);
        Ok(())
    }
}

pub fn eval_seq(case: &SeqCase, st: &mut Stats) -> Result<(), String> {
    let mut p = Pool {
        r: RawFuzzyHash::new(),
        lr: LongRawFuzzyHash::new(),
        n: FuzzyHash::new(),
        ln: LongFuzzyHash::new(),
        d: DualFuzzyHash::new(),
        ld: LongDualFuzzyHash::new(),
        t: FuzzyHashCompareTarget::new(),
        pa: BlockHashPositionArray::new(),
    };
    p.check_all("construction of empty objects")?;
    let mut shrinking_write = false;
    for (i, op) in case.ops.iter().enumerate() {
        let name: String = match op {
            Op::Generate(prog) => {
                let data = prog.render();
                let mut g = Generator::new();
                must("update", || {
                    g.update(&data);
                })?;
                if let Ok(h) = must("finalize", || g.finalize())? {
                    p.r = h;
                }
                if let Ok(h) = must("finalize_without_truncation", || g.finalize_without_truncation())? {
                    p.lr = h;
                }
                "generate".into()
            }
            Op::Parse { ty, text } => {
                macro_rules! parse_into {
                    ($slot:expr, $ty:ty) => {
                        if let Ok(h) = must("from_bytes", || <$ty>::from_bytes(text))? {
                            $slot = h;
                        }
                    };
                }
                match ty % 6 {
                    0 => parse_into!(p.r, RawFuzzyHash),
                    1 => parse_into!(p.lr, LongRawFuzzyHash),
                    2 => parse_into!(p.n, FuzzyHash),
                    3 => parse_into!(p.ln, LongFuzzyHash),
                    4 => parse_into!(p.d, DualFuzzyHash),
                    _ => parse_into!(p.ld, LongDualFuzzyHash),
                }
                format!("parse into slot {}", ty % 6)
            }
            Op::Construct(c) => {
                // returned objects go into the pool whatever the contract says: validity is checked below
                match c.ty % 6 {
                    0 => {
                        if let Ok(h) = lib(|| RawFuzzyHash::new_from_internals(c.block_size, &c.bh1, &c.bh2)) {
                            p.r = h;
                        }
                    }
                    1 => {
                        if let Ok(h) = lib(|| LongRawFuzzyHash::new_from_internals_near_raw(c.log, &c.bh1, &c.bh2)) {
                            p.lr = h;
                        }
                    }
                    2 => {
                        if let Ok(h) = lib(|| FuzzyHash::new_from_internals(c.block_size, &c.bh1, &c.bh2)) {
                            p.n = h;
                        }
                    }
                    3 => {
                        if let Ok(h) = lib(|| LongFuzzyHash::new_from_internals_near_raw(c.log, &c.bh1, &c.bh2)) {
                            p.ln = h;
                        }
                    }
                    4 => {
                        if let Ok(h) = lib(|| DualFuzzyHash::new_from_internals(c.block_size, &c.bh1, &c.bh2)) {
                            p.d = h;
                        }
                    }
                    _ => {
                        if let Ok(h) = lib(|| LongDualFuzzyHash::new_from_internals_near_raw(c.log, &c.bh1, &c.bh2)) {
                            p.ld = h;
                        }
                    }
                }
                format!("constructor into slot {}", c.ty % 6)
            }
            Op::NormalizeInPlace { ty } => {
                match ty % 6 {
                    0 => must("normalize_in_place", || p.r.normalize_in_place())?,
                    1 => must("normalize_in_place", || p.lr.normalize_in_place())?,
                    2 => must("normalize_in_place", || p.n.normalize_in_place())?,
                    3 => must("normalize_in_place", || p.ln.normalize_in_place())?,
                    4 => must("normalize_in_place", || p.d.normalize_in_place())?,
                    _ => must("normalize_in_place", || p.ld.normalize_in_place())?,
                }
                format!("normalize_in_place on slot {}", ty % 6)
            }
            Op::Convert { src, sel } => {
                let before_len = (p.r.block_hash_1_len(), p.lr.block_hash_2_len(), p.n.block_hash_1_len(), p.ln.block_hash_2_len());
                let nm: &'static str = match (src % 6, sel % 4) {
                    (0, 0) => { must("into_mut_long_form", || p.r.into_mut_long_form(&mut p.lr))?; "Raw.into_mut_long_form(LongRaw)" }
                    (0, 1) => { p.n = must("normalize", || p.r.normalize())?; "Raw.normalize -> Norm" }
                    (0, 2) => { must("init_from_raw_form", || p.d.init_from_raw_form(&p.r))?; "Dual.init_from_raw_form(Raw)" }
                    (0, _) => { p.lr = must("From", || LongRawFuzzyHash::from(p.r))?; "LongRaw::from(Raw)" }
                    (1, 0) => { let _ = must("try_into_mut_short", || p.lr.try_into_mut_short(&mut p.r))?; "LongRaw.try_into_mut_short(Raw)" }
                    (1, 1) => { p.ln = must("normalize", || p.lr.normalize())?; "LongRaw.normalize -> LongNorm" }
                    (1, 2) => { must("init_from_raw_form", || p.ld.init_from_raw_form(&p.lr))?; "LongDual.init_from_raw_form(LongRaw)" }
                    (1, _) => { if let Ok(x) = must("try_from", || RawFuzzyHash::try_from(p.lr))? { p.r = x; } "Raw::try_from(LongRaw)" }
                    (2, 0) => { must("into_mut_raw_form", || p.n.into_mut_raw_form(&mut p.r))?; "Norm.into_mut_raw_form(Raw)" }
                    (2, 1) => { must("into_mut_long_form", || p.n.into_mut_long_form(&mut p.ln))?; "Norm.into_mut_long_form(LongNorm)" }
                    (2, 2) => { p.d = must("from_normalized", || DualFuzzyHash::from_normalized(&p.n))?; "Dual::from_normalized(Norm)" }
                    (2, _) => { p.lr = must("From", || LongRawFuzzyHash::from(p.n))?; "LongRaw::from(Norm)" }
                    (3, 0) => { let _ = must("try_into_mut_short", || p.ln.try_into_mut_short(&mut p.n))?; "LongNorm.try_into_mut_short(Norm)" }
                    (3, 1) => { must("into_mut_raw_form", || p.ln.into_mut_raw_form(&mut p.lr))?; "LongNorm.into_mut_raw_form(LongRaw)" }
                    (3, 2) => { p.ld = must("from_normalized", || LongDualFuzzyHash::from_normalized(&p.ln))?; "LongDual::from_normalized(LongNorm)" }
                    (3, _) => { if let Ok(x) = must("try_from", || FuzzyHash::try_from(p.ln))? { p.n = x; } "Norm::try_from(LongNorm)" }
                    (4, 0) => { must("into_mut_raw_form", || p.d.into_mut_raw_form(&mut p.r))?; "Dual.into_mut_raw_form(Raw)" }
                    (4, 1) => { p.n = must("to_normalized", || p.d.to_normalized())?; "Dual.to_normalized -> Norm" }
                    (4, 2) => { p.r = must("to_raw_form", || p.d.to_raw_form())?; "Dual.to_raw_form -> Raw" }
                    (4, _) => { p.n = *p.d.as_normalized(); "Dual.as_normalized -> Norm" }
                    (_, 0) => { must("into_mut_raw_form", || p.ld.into_mut_raw_form(&mut p.lr))?; "LongDual.into_mut_raw_form(LongRaw)" }
                    (_, 1) => { p.ln = must("to_normalized", || p.ld.to_normalized())?; "LongDual.to_normalized -> LongNorm" }
                    (_, 2) => { p.lr = must("to_raw_form", || p.ld.to_raw_form())?; "LongDual.to_raw_form -> LongRaw" }
                    (_, _) => { p.ln = *p.ld.as_normalized(); "LongDual.as_normalized -> LongNorm" }
                };
                let after_len = (p.r.block_hash_1_len(), p.lr.block_hash_2_len(), p.n.block_hash_1_len(), p.ln.block_hash_2_len());
                if after_len.0 < before_len.0 || after_len.1 < before_len.1 || after_len.2 < before_len.2 || after_len.3 < before_len.3 {
                    shrinking_write = true;
                }
                nm.into()
            }
            Op::TargetInit { src } => {
                match src % 4 {
                    0 => must("init_from", || p.t.init_from(&p.n))?,
                    1 => must("init_from", || p.t.init_from(&p.ln))?,
                    2 => must("init_from", || p.t.init_from(&p.d))?,
                    _ => must("init_from", || p.t.init_from(&p.ld))?,
                }
                format!("target.init_from(slot {})", src % 4)
            }
            Op::PaInit { src, second } => {
                let s: Vec<u8> = match (src % 4, second) {
                    (0, false) => p.r.block_hash_1().to_vec(),
                    (0, true) => p.r.block_hash_2().to_vec(),
                    (1, false) => p.lr.block_hash_1().to_vec(),
                    (1, true) => p.lr.block_hash_2().to_vec(),
                    (2, false) => p.n.block_hash_1().to_vec(),
                    (2, true) => p.n.block_hash_2().to_vec(),
                    (_, false) => p.ln.block_hash_1().to_vec(),
                    (_, true) => p.ln.block_hash_2().to_vec(),
                };
                must("pa.init_from", || p.pa.init_from(&s))?;
                "pa.init_from".into()
            }
            Op::PaClear => {
                must("pa.clear", || p.pa.clear())?;
                "pa.clear".into()
            }
        };
        st.class(&format!("op:{}", name.split(|c: char| c == '(' || c == ' ').next().unwrap_or("")));
        p.check_all(&format!("step {} ({})", i, name))?;
    }
    if shrinking_write {
        st.nontrivial(oracle::fingerprint(format!("{:?}", case).as_bytes()));
    }
    Ok(())
}

fn seq_strategy(wt: u64, max_ops: usize) -> impl Strategy<Value = SeqCase> {
    let op = prop_oneof![
        2 => gens::prog_mix(wt, 1 << 13, 5).prop_map(Op::Generate),
        4 => (0u8..6, gens::text_valid_bs()).prop_map(|(ty, text)| Op::Parse { ty, text }),
        1 => (0u8..6, gens::text_mix()).prop_map(|(ty, text)| Op::Parse { ty, text }),
        3 => ctor_strategy().prop_map(Op::Construct),
        2 => (0u8..6).prop_map(|ty| Op::NormalizeInPlace { ty }),
        8 => (0u8..6, 0u8..4).prop_map(|(src, sel)| Op::Convert { src, sel }),
        2 => (0u8..4).prop_map(|src| Op::TargetInit { src }),
        2 => (0u8..4, any::<bool>()).prop_map(|(src, second)| Op::PaInit { src, second }),
        1 => Just(Op::PaClear),
    ];
    proptest::collection::vec(op, 0..=max_ops).prop_map(|ops| SeqCase { ops })
}

pub fn subchecks(tier: Tier) -> Vec<SubCheck> {
    let wt_seed = move || -> u64 {
        std::env::var("VERIF_SEED").ok().and_then(|s| s.trim().parse::<i128>().ok()).map(|v| v as u64).unwrap_or(0) ^ 0xC11
    };
    let max_ops = tier.pick(30usize, 100usize);
    // F2 reproducers (fixed in /repo; must keep passing) live here as a listed sub-check as well
    let f2 = vec![
        CtorCase { ty: 0, ctor: 0, block_size: 3, log: 0, bh1: vec![64, 1], bh2: vec![], len1: 2, len2: 0, tail: 0 },
        CtorCase { ty: 2, ctor: 0, block_size: 3, log: 0, bh1: vec![1, 1, 1, 1, 1], bh2: vec![], len1: 5, len2: 0, tail: 0 },
        CtorCase { ty: 1, ctor: 0, block_size: 6, log: 1, bh1: vec![], bh2: vec![0, 200], len1: 0, len2: 2, tail: 0 },
        CtorCase { ty: 3, ctor: 0, block_size: 12, log: 2, bh1: vec![5], bh2: vec![7, 7, 7, 7], len1: 1, len2: 4, tail: 0 },
    ];
    vec![
        listed("f2_reproducers", "the reproducers of finding F2 (new_from_internals with out-of-contract content in a build without debug assertions)", f2, eval_ctor),
        generated(
            "constructors",
            "every checked constructor of the six hash types and the position array (new_from_internals, new_from_internals_near_raw, new_from_internals_raw, init_from_internals_raw on a used object, dual constructors, init_from) with generated arguments that may be out of contract (symbols >= 64, lengths > capacity, non-zero tail, invalid block size / log, un-normalised content for normalising types); rule: contract holds => returns a valid object with that content, else the call must panic (a returned object is the violation); non-trivial = all; distinct by arguments",
            tier.pick(300_000, 4_000_000),
            ctor_strategy,
            eval_ctor,
        ),
        generated(
            "arbitrary_bytes",
            "objects of all eight types whose bytes are a valid object with 1..3 bytes overwritten, or fully random: is_valid / full_eq / == / {:?} never panic; is_valid() agrees with the documented invariants recomputed from public accessors (plain types, position array); a dual that reports valid is the canonical encoding of its own raw form; non-trivial = all; distinct by case",
            tier.pick(300_000, 4_000_000),
            bytes_strategy,
            eval_bytes,
        ),
        generated(
            "operation_sequences",
            "sequences of <= 30 (quick) / 100 (thorough) safe operations over a pool holding one object of each type plus a comparison target and a position array: generate from bytes, parse (grammar-derived and mutated texts), constructors with possibly bad arguments, normalise in place, every conversion into the pool's previously used destinations, dual compress / expand, target and position-array initialisation; after every step every object passes is_valid() and the re-implemented invariants, full_eq(x, x), {:?}; non-trivial = a write into a destination whose previous content was longer; distinct by sequence",
            tier.pick(160_000, 2_000_000),
            move || seq_strategy(wt_seed(), max_ops),
            eval_seq,
        ),
    ]
}
