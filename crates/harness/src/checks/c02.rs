//! C02 - similarity score equals libfuzzy's fuzzy_compare on every pair (reference: R-cmp).

use crate::api::{build_raw, fixed_hash};
use crate::engine::{generated, must, Stats, SubCheck, Tier};
use crate::gens::{self, Edit, RawH};
use oracle::cmp::{compare_split, SplitHash};
use proptest::prelude::*;
use serde::{Deserialize, Serialize};
use ssdeep::{
    DualFuzzyHash, FuzzyHash, FuzzyHashCompareTarget, LongDualFuzzyHash, LongFuzzyHash, LongRawFuzzyHash, RawFuzzyHash,
};

#[derive(Debug, Clone, Serialize, Deserialize)]
pub struct Case {
    pub a: RawH,
    pub b: RawH,
    /// text spelling: 0 raw, 1 collapsed, 2 raw + ",name"
    pub spell_a: u8,
    pub spell_b: u8,
    /// an unrelated hash used to pre-load a re-used comparison target
    pub dirt: RawH,
}

fn split_of(h: &RawH) -> SplitHash {
    SplitHash {
        block_size: 3u64 << h.log,
        bh1: h.bh1.clone(),
        bh2: h.bh2.clone(),
    }
}

fn spell(h: &RawH, mode: u8) -> String {
    match mode % 3 {
        0 => h.text(),
        1 => h.collapsed().text(),
        _ => format!("{},\"some name, with: punctuation\"", h.text()),
    }
}

#[derive(Debug, Clone, Copy, PartialEq, Eq)]
enum Rel {
    Eq,
    Lt,
    Gt,
    Far,
}

fn rel_of(a: u8, b: u8) -> Rel {
    match b as i32 - a as i32 {
        0 => Rel::Eq,
        1 => Rel::Lt,
        -1 => Rel::Gt,
        _ => Rel::Far,
    }
}

/// Every entry point for the ordered pair (x, y); `exp` is the reference score.
fn check_ordered(x: &RawH, y: &RawH, sx: u8, sy: u8, dirt: &RawH, exp: u32, st: &mut Stats) -> Result<(), String> {
    let tag = |what: &str| format!("{} [{} vs {}]", what, x.text(), y.text());
    // 1. the string function
    let (tx, ty) = (spell(x, sx), spell(y, sy));
    let r = must("ssdeep::compare", || ssdeep::compare(&tx, &ty))?;
    match r {
        Ok(s) => ensure_eq!(s, exp, "{}", tag("ssdeep::compare(&str,&str)")),
        Err(e) => return Err(format!("{}: unexpected parse error {:?}", tag("ssdeep::compare"), e)),
    }
    // objects
    let lx: LongRawFuzzyHash = build_raw::<64, 64>(x)?;
    let ly: LongRawFuzzyHash = build_raw::<64, 64>(y)?;
    let nx: LongFuzzyHash = must("normalize", || lx.normalize())?;
    let ny: LongFuzzyHash = must("normalize", || ly.normalize())?;
    let dy: LongDualFuzzyHash = must("LongDualFuzzyHash::from_raw_form", || LongDualFuzzyHash::from_raw_form(&ly))?;
    // 2. hash-to-hash
    let s = must("LongFuzzyHash::compare", || nx.compare(&ny))?;
    ensure_eq!(s, exp, "{}", tag("LongFuzzyHash::compare(&LongFuzzyHash)"));
    let s = must("LongFuzzyHash::compare(dual)", || nx.compare(&dy))?;
    ensure_eq!(s, exp, "{}", tag("LongFuzzyHash::compare(&LongDualFuzzyHash)"));
    // 3. target, fresh and re-used
    let t = must("FuzzyHashCompareTarget::from", || FuzzyHashCompareTarget::from(&nx))?;
    let s = must("target.compare", || t.compare(&ny))?;
    ensure_eq!(s, exp, "{}", tag("FuzzyHashCompareTarget::compare(&LongFuzzyHash)"));
    let s = must("target.compare(dual)", || t.compare(&dy))?;
    ensure_eq!(s, exp, "{}", tag("FuzzyHashCompareTarget::compare(&LongDualFuzzyHash)"));
    let nd: LongFuzzyHash = must("normalize", || build_raw::<64, 64>(dirt).map(|d| d.normalize()))??;
    let mut reused = must("FuzzyHashCompareTarget::from", || FuzzyHashCompareTarget::from(&nd))?;
    must("init_from", || reused.init_from(&nx))?;
    let s = must("reused target.compare", || reused.compare(&ny))?;
    ensure_eq!(s, exp, "{}", tag("re-used FuzzyHashCompareTarget::compare"));
    let from_dual = must("FuzzyHashCompareTarget::from(dual)", || {
        FuzzyHashCompareTarget::from(LongDualFuzzyHash::from_raw_form(&lx))
    })?;
    let s = must("target(from dual).compare", || from_dual.compare(&ny))?;
    ensure_eq!(s, exp, "{}", tag("FuzzyHashCompareTarget::from(dual).compare"));
    // 4. specialised entry points whenever their documented precondition holds
    let rel = rel_of(x.log, y.log);
    let equiv = nx == ny;
    ensure_eq!(must("is_equiv", || t.is_equiv(&ny))?, equiv, "{}", tag("is_equiv"));
    if rel == Rel::Eq {
        let s = must("compare_near_eq", || t.compare_near_eq(&ny))?;
        ensure_eq!(s, exp, "{}", tag("compare_near_eq"));
        if !equiv {
            let s = must("compare_unequal_near_eq", || t.compare_unequal_near_eq(&ny))?;
            ensure_eq!(s, exp, "{}", tag("compare_unequal_near_eq"));
        }
        st.class("rel=eq");
    }
    if rel == Rel::Lt {
        let s = must("compare_unequal_near_lt", || t.compare_unequal_near_lt(&ny))?;
        ensure_eq!(s, exp, "{}", tag("compare_unequal_near_lt"));
        st.class("rel=lt");
    }
    if rel == Rel::Gt {
        let s = must("compare_unequal_near_gt", || t.compare_unequal_near_gt(&ny))?;
        ensure_eq!(s, exp, "{}", tag("compare_unequal_near_gt"));
        st.class("rel=gt");
    }
    if rel == Rel::Far {
        st.class("rel=far");
    }
    if !equiv {
        let s = must("compare_unequal", || t.compare_unequal(&ny))?;
        ensure_eq!(s, exp, "{}", tag("FuzzyHashCompareTarget::compare_unequal"));
        let s = must("hash.compare_unequal", || nx.compare_unequal(&ny))?;
        ensure_eq!(s, exp, "{}", tag("LongFuzzyHash::compare_unequal"));
    }
    // 5. short forms whenever both fit
    if nx.block_hash_2_len() <= 32 && ny.block_hash_2_len() <= 32 {
        let sxh: FuzzyHash = must("try_from", || FuzzyHash::try_from(nx))?.map_err(|e| format!("narrowing failed: {:?}", e))?;
        let syh: FuzzyHash = must("try_from", || FuzzyHash::try_from(ny))?.map_err(|e| format!("narrowing failed: {:?}", e))?;
        let s = must("FuzzyHash::compare", || sxh.compare(&syh))?;
        ensure_eq!(s, exp, "{}", tag("FuzzyHash::compare(&FuzzyHash)"));
        let s = must("target.compare(short)", || t.compare(&syh))?;
        ensure_eq!(s, exp, "{}", tag("FuzzyHashCompareTarget(long).compare(&FuzzyHash)"));
        let ts = must("FuzzyHashCompareTarget::from(short)", || FuzzyHashCompareTarget::from(&sxh))?;
        let s = must("target(short).compare(long)", || ts.compare(&ny))?;
        ensure_eq!(s, exp, "{}", tag("FuzzyHashCompareTarget(short).compare(&LongFuzzyHash)"));
        if y.bh2.len() <= 32 {
            let ry: RawFuzzyHash = build_raw::<64, 32>(y)?;
            let dys: DualFuzzyHash = must("DualFuzzyHash::from_raw_form", || DualFuzzyHash::from_raw_form(&ry))?;
            let s = must("FuzzyHash::compare(dual)", || sxh.compare(&dys))?;
            ensure_eq!(s, exp, "{}", tag("FuzzyHash::compare(&DualFuzzyHash)"));
            let s = must("target.compare(short dual)", || t.compare(&dys))?;
            ensure_eq!(s, exp, "{}", tag("FuzzyHashCompareTarget::compare(&DualFuzzyHash)"));
        }
        st.class("short_forms_too");
    }
    // 6. the block-hash level entry points behind them: the position arrays of the target score a string at
    //    a given effective block size (log 0..=31; 31 is block hash 2 of the largest block size) or without a cap
    {
        use ssdeep::internal_comparison::BlockHashPositionArrayImpl;
        let (cx, cy) = (x.collapsed(), y.collapsed());
        let fp = oracle::fingerprint(format!("{}|{}", cx.text(), cy.text()).as_bytes());
        // the effective levels of the two block hashes of x, the extreme ones, and one drawn from the pair
        let logs = [x.log, x.log + 1, 0, 3, 4, 30, 31, (fp % 32) as u8];
        for (which, mine, theirs) in [(1, &cx.bh1, &cy.bh1), (2, &cx.bh2, &cy.bh2), (1, &cx.bh1, &cy.bh2), (2, &cx.bh2, &cy.bh1)] {
            let uncapped = oracle::cmp::score_strings(mine, theirs, 1 << 40);
            let raw = must("score_strings_raw", || if which == 1 { t.block_hash_1().score_strings_raw(theirs) } else { t.block_hash_2().score_strings_raw(theirs) })?;
            ensure_eq!(raw, uncapped, "block_hash_{}().score_strings_raw({:?}) of the target of {}", which, theirs, cx.text());
            for &log in &logs {
                let e = oracle::cmp::score_strings(mine, theirs, 3u64 << log);
                let s = must("score_strings", || if which == 1 { t.block_hash_1().score_strings(theirs, log) } else { t.block_hash_2().score_strings(theirs, log) })?;
                ensure_eq!(s, e, "block_hash_{}().score_strings({:?}, log block size {}) of the target of {}", which, theirs, log, cx.text());
            }
        }
        let mut pa = ssdeep::internal_comparison::BlockHashPositionArray::new();
        must("BlockHashPositionArray::init_from", || pa.init_from(&cy.bh1))?;
        must("BlockHashPositionArray::init_from", || pa.init_from(&cx.bh1))?;
        let log = (fp >> 8) as u8 % 32;
        let s = must("score_strings", || pa.score_strings(&cy.bh1, log))?;
        ensure_eq!(s, oracle::cmp::score_strings(&cx.bh1, &cy.bh1, 3u64 << log), "BlockHashPositionArray({:?}).score_strings({:?}, {})", cx.bh1, cy.bh1, log);
    }
    let _ = fixed_hash(&nx);
    Ok(())
}

pub fn eval(case: &Case, st: &mut Stats) -> Result<(), String> {
    let (a, b) = (&case.a, &case.b);
    let exp_ab = compare_split(&split_of(a), &split_of(b));
    let exp_ba = compare_split(&split_of(b), &split_of(a));
    assert_eq!(exp_ab, exp_ba, "ORACLE SELF-CHECK: reference comparison is not symmetric");
    if exp_ab > 0 && exp_ab < 100 {
        st.nontrivial(oracle::fingerprint(format!("{}|{}", a.text(), b.text()).as_bytes()));
    }
    st.class(match exp_ab {
        0 => "score=0",
        100 => "score=100",
        _ => "score=1..99",
    });
    let (ca, cb) = (a.collapsed(), b.collapsed());
    let small = a.log.min(b.log) < 4;
    if small && exp_ab > 0 && exp_ab < 100 {
        st.class("cap_region_scored");
    }
    if ca == cb && a != b {
        st.class("identical_after_collapsing_only");
    }
    check_ordered(a, b, case.spell_a, case.spell_b, &case.dirt, exp_ab, st)?;
    check_ordered(b, a, case.spell_b, case.spell_a, &case.dirt, exp_ba, st)?;
    Ok(())
}

#[derive(Debug, Clone)]
enum Partner {
    Identical,
    StretchRuns,
    Edits(Vec<Edit>, Vec<Edit>),
    Unrelated(Vec<u8>, Vec<u8>),
    Gram { n: usize, i: u16, j: u16, fill1: Vec<u8>, fill2: Vec<u8> },
}

fn partner() -> impl Strategy<Value = Partner> {
    prop_oneof![
        1 => Just(Partner::Identical),
        1 => Just(Partner::StretchRuns),
        6 => (proptest::collection::vec(gens::edit(), 0..5), proptest::collection::vec(gens::edit(), 0..5)).prop_map(|(e1, e2)| Partner::Edits(e1, e2)),
        2 => (proptest::collection::vec(gens::edit(), 4..9), proptest::collection::vec(gens::edit(), 4..9)).prop_map(|(e1, e2)| Partner::Edits(e1, e2)),
        1 => (gens::block_hash(64), gens::block_hash(64)).prop_map(|(x, y)| Partner::Unrelated(x, y)),
        2 => (6usize..=8, any::<u16>(), any::<u16>(), gens::block_hash(64), gens::block_hash(64)).prop_map(|(n, i, j, fill1, fill2)| Partner::Gram { n, i, j, fill1, fill2 }),
    ]
}

/// derive `dst` from `src` under a partner kind
fn derive(src: &[u8], p: &Partner, which: usize, cap: usize) -> Vec<u8> {
    use crate::engine::pick_index;
    match p {
        Partner::Identical => src.to_vec(),
        Partner::StretchRuns => {
            // lengthen every run of >= 3 by one: identical after collapsing only
            let mut out = Vec::new();
            for (s, n) in oracle::fmt::runs(src) {
                let n2 = if n >= 3 { n + 1 } else { n };
                out.extend(std::iter::repeat(s).take(n2));
            }
            if out.len() > cap {
                src.to_vec()
            } else {
                out
            }
        }
        Partner::Edits(e1, e2) => gens::apply_edits(src, if which == 0 { e1 } else { e2 }, cap),
        Partner::Unrelated(x, y) => {
            let mut v = if which == 0 { x.clone() } else { y.clone() };
            v.truncate(cap);
            v
        }
        Partner::Gram { n, i, j, fill1, fill2 } => {
            let mut v = if which == 0 { fill1.clone() } else { fill2.clone() };
            v.truncate(cap);
            if src.len() >= *n {
                let s = pick_index(*i, src.len() - n + 1);
                let piece = &src[s..s + n];
                let p = pick_index(*j, v.len() + 1);
                for (k, c) in piece.iter().enumerate() {
                    if p + k < v.len() {
                        v[p + k] = *c;
                    } else if v.len() < cap {
                        v.push(*c);
                    }
                }
            }
            v
        }
    }
}

/// a block hash of exactly 64 run-free symbols against one that contains "end of it + start of it":
/// a comparison that treated the 64-symbol string as circular would invent a common substring
fn wrap_pair() -> impl Strategy<Value = Case> {
    (gens::log_bs(), any::<u64>(), 1usize..7, gens::block_hash_min(64, 12), any::<u16>(), 0u8..3, gens::raw_hash(64), any::<bool>()).prop_map(
        |(log, seed, j, fill, pos, spell, dirt, second)| {
            let mut r = oracle::words::SplitMix(seed);
            let mut full: Vec<u8> = Vec::with_capacity(64);
            while full.len() < 64 {
                let c = (r.next() % 64) as u8;
                if full.last() != Some(&c) {
                    full.push(c);
                }
            }
            let mut gram: Vec<u8> = full[64 - j..].to_vec();
            gram.extend_from_slice(&full[..7 - j]);
            let mut other = fill;
            let p = crate::engine::pick_index(pos, other.len() + 1);
            for (k, c) in gram.iter().enumerate() {
                if p + k < other.len() {
                    other[p + k] = *c;
                } else if other.len() < 64 {
                    other.push(*c);
                }
            }
            let (a, b) = if second {
                (RawH { log, bh1: vec![1, 2, 3], bh2: full }, RawH { log, bh1: vec![4, 5, 6], bh2: other })
            } else {
                (RawH { log, bh1: full, bh2: vec![1, 2] }, RawH { log, bh1: other, bh2: vec![3] })
            };
            Case { a, b, spell_a: spell, spell_b: spell, dirt }
        },
    )
}

pub fn strategy() -> impl Strategy<Value = Case> {
    prop_oneof![19 => strategy_main(), 1 => wrap_pair()]
}

fn strategy_main() -> impl Strategy<Value = Case> {
    (
        prop_oneof![4 => gens::raw_hash_long(64), 1 => gens::raw_hash(64)],
        prop::sample::select(vec![0i8, 0, 0, 0, 0, 0, 1, 1, 1, 1, -1, -1, -1, -1, 2, -7]),
        partner(),
        0u8..3,
        0u8..3,
        gens::raw_hash(64),
        prop::bool::weighted(0.12),
        any::<bool>(),
    )
        .prop_map(|(a, dlog, p, spell_a, spell_b, dirt, straight, short)| {
            let mut a = a;
            if short {
                a.bh2.truncate(32);
            }
            let blog = (a.log as i16 + dlog as i16).clamp(0, 30) as u8;
            let cap2 = if short { 32 } else { 64 };
            // which block hash of `a` each block hash of `b` is derived from: the pair that the
            // block-size relation makes comparable, unless `straight`
            let (src1, src2): (&[u8], &[u8]) = if straight || blog == a.log {
                (&a.bh1, &a.bh2)
            } else if blog == a.log + 1 {
                // b is the larger block size: b.bh1 is compared with a.bh2
                (&a.bh2, &a.bh1)
            } else {
                // b smaller: b.bh2 is compared with a.bh1
                (&a.bh2, &a.bh1)
            };
            let b = RawH {
                log: blog,
                bh1: derive(src1, &p, 0, 64),
                bh2: derive(src2, &p, 1, cap2),
            };
            Case {
                a,
                b,
                spell_a,
                spell_b,
                dirt,
            }
        })
}

pub fn subchecks(tier: Tier) -> Vec<SubCheck> {
    vec![generated(
        "compare_vs_reference",
        "pairs (a, b): b derived from a (identical, identical after collapsing only, <= 8 edits per block hash, transplanted 6/7/8-gram, unrelated), block-size relation eq/x2/:2/far with the comparable block hashes crossed accordingly, raw/collapsed/with-name spelling, short and long; every entry point in both orders, down to score_strings / score_strings_raw of the position arrays at log block sizes 0..=31; non-trivial = 0 < reference score < 100; distinct by the two texts",
        tier.pick(800_000, 10_000_000),
        strategy,
        eval,
    )]
}
