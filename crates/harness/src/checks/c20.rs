//! C20 - block-size and score arithmetic on its entire (finite) domain: exhaustive enumeration.

use crate::engine::{enumerated, lib, must, Stats, SubCheck, Tier};
use serde_json::json;
use ssdeep::{block_size, BlockSizeRelation, FuzzyHashCompareTarget, RawFuzzyHash};

fn is_valid_def(bs: u32) -> bool {
    (0..31u32).any(|n| bs as u64 == (3u64 << n))
}

fn sub_is_valid() -> SubCheck {
    enumerated(
        "block_size_is_valid_all_u32",
        "all 2^32 u32 values for block_size::is_valid against membership in {3*2^n, n<31}; non-trivial = the 31 valid sizes plus their +-1 neighbours and all multiples of 3 that are not valid (counted); distinct by construction",
        1u64 << 32,
        true,
        |i| json!({"block_size": i}),
        |lo, hi, st: &mut Stats| {
            // the 31 valid values, sorted
            let valid: Vec<u64> = (0..31).map(|n| 3u64 << n).collect();
            let mut vi = valid.partition_point(|&v| v < lo);
            let mut nt = 0u64;
            for i in lo..hi {
                let bs = i as u32;
                let exp = if vi < valid.len() && valid[vi] == i {
                    vi += 1;
                    true
                } else {
                    false
                };
                let got = block_size::is_valid(bs);
                if got != exp {
                    return Err((i, format!("is_valid({}) = {} but membership in {{3*2^n}} is {}", bs, got, exp)));
                }
                if exp || bs % 3 == 0 {
                    nt += 1;
                }
            }
            st.count(hi - lo);
            st.nontrivial_distinct(nt);
            Ok(())
        },
    )
}

fn sub_logs() -> SubCheck {
    enumerated(
        "log_forms_all_u8",
        "n in 0..=255: from_log / is_log_valid / log_from_valid / block_size() of an object / canonical decimal text round trip (n<31), None / false above; non-trivial = n < 31; distinct by construction",
        256,
        true,
        |i| json!({"log": i}),
        |lo, hi, st: &mut Stats| {
            for i in lo..hi {
                let n = i as u8;
                let fl = must("from_log", || block_size::from_log(n)).map_err(|m| (i, m))?;
                let lv = block_size::is_log_valid(n);
                if n < 31 {
                    let bs = (3u64 << n) as u32;
                    if fl != Some(bs) || !lv {
                        return Err((i, format!("from_log({}) = {:?}, is_log_valid = {}", n, fl, lv)));
                    }
                    let back = must("log_from_valid", || block_size::log_from_valid(bs)).map_err(|m| (i, m))?;
                    if back != n {
                        return Err((i, format!("log_from_valid({}) = {} expected {}", bs, back, n)));
                    }
                    if !is_valid_def(bs) || !block_size::is_valid(bs) {
                        return Err((i, format!("is_valid({}) false", bs)));
                    }
                    let h = must("new_from_internals_near_raw", || RawFuzzyHash::new_from_internals_near_raw(n, &[], &[])).map_err(|m| (i, m))?;
                    if h.block_size() != bs || h.log_block_size() != n {
                        return Err((i, format!("object block_size() = {} log = {} expected {} / {}", h.block_size(), h.log_block_size(), bs, n)));
                    }
                    let h2 = must("new_from_internals", || RawFuzzyHash::new_from_internals(bs, &[], &[])).map_err(|m| (i, m))?;
                    if h2.log_block_size() != n {
                        return Err((i, format!("new_from_internals({}) log = {}", bs, h2.log_block_size())));
                    }
                    let text = h.to_string();
                    let exp = format!("{}::", 3u64 << n);
                    if text != exp {
                        return Err((i, format!("text {:?} expected {:?}", text, exp)));
                    }
                    let p: RawFuzzyHash = must("parse", || text.parse::<RawFuzzyHash>()).map_err(|m| (i, m))?.map_err(|e| (i, format!("canonical text {:?} rejected: {:?}", text, e)))?;
                    if p.log_block_size() != n || p.block_size() != bs {
                        return Err((i, format!("parse({:?}) gives log {}", text, p.log_block_size())));
                    }
                    st.nontrivial_distinct(1);
                } else if fl.is_some() || lv {
                    return Err((i, format!("from_log({}) = {:?}, is_log_valid = {} (must be None/false)", n, fl, lv)));
                }
                st.count(1);
            }
            Ok(())
        },
    )
}

fn sub_relations() -> SubCheck {
    enumerated(
        "relations_31x31",
        "all 31x31 pairs of logs: is_near / is_near_eq / is_near_lt / is_near_gt / compare_sizes / cmp and the object-level wrappers against the definition (equal, double, half, otherwise); non-trivial = |a-b| <= 2; distinct by construction",
        31 * 31,
        true,
        |i| json!({"lhs": i / 31, "rhs": i % 31}),
        |lo, hi, st: &mut Stats| {
            for i in lo..hi {
                let (a, b) = ((i / 31) as u8, (i % 31) as u8);
                let (sa, sb) = (3u64 << a, 3u64 << b);
                let def = if sa == sb {
                    BlockSizeRelation::NearEq
                } else if sa * 2 == sb {
                    BlockSizeRelation::NearLt
                } else if sb * 2 == sa {
                    BlockSizeRelation::NearGt
                } else {
                    BlockSizeRelation::Far
                };
                let got = lib(|| {
                    (
                        block_size::compare_sizes(a, b),
                        block_size::is_near(a, b),
                        block_size::is_near_eq(a, b),
                        block_size::is_near_lt(a, b),
                        block_size::is_near_gt(a, b),
                        block_size::cmp(a, b),
                    )
                })
                .map_err(|p| (i, format!("relation predicate panicked on valid logs ({}, {}): {}", a, b, p)))?;
                let exp = (
                    def,
                    def != BlockSizeRelation::Far,
                    def == BlockSizeRelation::NearEq,
                    def == BlockSizeRelation::NearLt,
                    def == BlockSizeRelation::NearGt,
                    sa.cmp(&sb),
                );
                if got != exp {
                    return Err((i, format!("relations of logs ({}, {}): got {:?} expected {:?}", a, b, got, exp)));
                }
                if def.is_near() != exp.1 {
                    return Err((i, format!("BlockSizeRelation::is_near() of {:?}", def)));
                }
                // object-level wrappers
                let ha = RawFuzzyHash::new_from_internals_near_raw(a, &[], &[]);
                let hb = RawFuzzyHash::new_from_internals_near_raw(b, &[], &[]);
                let gotw = lib(|| {
                    (
                        RawFuzzyHash::compare_block_sizes(ha, hb),
                        RawFuzzyHash::is_block_sizes_near(ha, hb),
                        RawFuzzyHash::is_block_sizes_near_eq(ha, hb),
                        RawFuzzyHash::is_block_sizes_near_lt(ha, hb),
                        RawFuzzyHash::is_block_sizes_near_gt(ha, hb),
                        ha.cmp_by_block_size(&hb),
                    )
                })
                .map_err(|p| (i, format!("object-level relation panicked: {}", p)))?;
                if gotw != exp {
                    return Err((i, format!("object-level relations of logs ({}, {}): got {:?} expected {:?}", a, b, gotw, exp)));
                }
                st.count(1);
                if (a as i32 - b as i32).abs() <= 2 {
                    st.nontrivial_distinct(1);
                }
            }
            Ok(())
        },
    )
}

fn sub_raw_score() -> SubCheck {
    // (l1, l2, d): 7 <= l <= 64, d <= l1 + l2 - 14
    let total: u64 = 58 * 58 * 115;
    enumerated(
        "raw_score_all_arguments",
        "all (l1, l2, d) with 7 <= l <= 64 and d <= l1+l2-14 for raw_score_by_edit_distance: equals 100 - floor(100*floor(64*d/(l1+l2))/64) and lies in 1..=100; out-of-domain d is skipped (counted separately); non-trivial = in-domain points; distinct by construction",
        total,
        true,
        |i| json!({"l1": 7 + i / (58 * 115), "l2": 7 + (i / 115) % 58, "d": i % 115}),
        |lo, hi, st: &mut Stats| {
            for i in lo..hi {
                let l1 = 7 + i / (58 * 115);
                let l2 = 7 + (i / 115) % 58;
                let d = i % 115;
                if d > l1 + l2 - 14 {
                    continue;
                }
                let got = must("raw_score_by_edit_distance", || {
                    FuzzyHashCompareTarget::raw_score_by_edit_distance(l1 as u8, l2 as u8, d as u32)
                })
                .map_err(|m| (i, m))?;
                let exp = 100 - (100 * ((64 * d) / (l1 + l2))) / 64;
                if got as u64 != exp || !(1..=100).contains(&got) {
                    return Err((i, format!("raw_score_by_edit_distance({}, {}, {}) = {} expected {} (and within 1..=100)", l1, l2, d, got, exp)));
                }
                if got != oracle::cmp::raw_score(l1 as usize, l2 as usize, d as usize) {
                    return Err((i, "reference formulas disagree".to_string()));
                }
                st.count(1);
                st.nontrivial_distinct(1);
            }
            Ok(())
        },
    )
}

fn sub_score_cap() -> SubCheck {
    let total: u64 = 32 * 65 * 65;
    enumerated(
        "score_cap_all_arguments",
        "all (n, l1, l2) in 0..=31 x 0..=64 x 0..=64 for score_cap_on_block_hash_comparison: equals 2^n*min(l1,l2) below LOG_BLOCK_SIZE_CAPPING_BORDER (= 4), >= 100 from the border upward; non-trivial = all points; distinct by construction",
        total,
        true,
        |i| json!({"n": i / (65 * 65), "l1": (i / 65) % 65, "l2": i % 65}),
        |lo, hi, st: &mut Stats| {
            let border = FuzzyHashCompareTarget::LOG_BLOCK_SIZE_CAPPING_BORDER;
            if border != 4 {
                return Err((lo, format!("LOG_BLOCK_SIZE_CAPPING_BORDER = {} (ssdeep: block sizes below 45, i.e. logs 0..=3, are capped)", border)));
            }
            for i in lo..hi {
                let n = i / (65 * 65);
                let l1 = (i / 65) % 65;
                let l2 = i % 65;
                let got = must("score_cap_on_block_hash_comparison", || {
                    FuzzyHashCompareTarget::score_cap_on_block_hash_comparison(n as u8, l1 as u8, l2 as u8)
                })
                .map_err(|m| (i, m))?;
                if n < 4 {
                    let exp = (1u64 << n) * l1.min(l2);
                    if got as u64 != exp {
                        return Err((i, format!("score_cap({}, {}, {}) = {} expected {}", n, l1, l2, got, exp)));
                    }
                    // ssdeep's form of the same cap
                    let bs = 3u64 << n;
                    if bs / 3 * l1.min(l2) != exp {
                        return Err((i, "reference formulas disagree".to_string()));
                    }
                } else if got < 100 {
                    return Err((i, format!("score_cap({}, {}, {}) = {} must be >= 100 from the capping border upward", n, l1, l2, got)));
                }
                st.count(1);
                st.nontrivial_distinct(1);
            }
            Ok(())
        },
    )
}

/// Where the two helpers meet: the block hash scorer applies the cap to the raw score at an effective block size
/// log 0..=31 (31 = block hash 2 of the largest block size, documented as valid there).
fn sub_capped_scores() -> SubCheck {
    #![allow(deprecated)]
    use ssdeep::internal_comparison::{BlockHashPositionArray, BlockHashPositionArrayImpl};
    const SHIFTS: u64 = 6;
    let total: u64 = 32 * 58 * 58 * SHIFTS;
    fn strings(l1: u64, l2: u64, k: u64) -> (Vec<u8>, Vec<u8>) {
        // run-free sequence; b is a shifted window of it (shares 7-grams with a), with its tail symbols replaced
        let s = |i: u64| ((i * 5) % 64) as u8;
        let a: Vec<u8> = (0..l1).map(s).collect();
        let mut b: Vec<u8> = (k..k + l2).map(s).collect();
        let keep = 7 + (k as usize * 9) % 40;
        for (j, c) in b.iter_mut().enumerate().skip(keep) {
            *c = ((j as u64 * 11 + 3 + k) % 64) as u8;
        }
        (a, oracle::fmt::collapse(&b))
    }
    enumerated(
        "capped_scores_all_levels",
        "all (n, l1, l2, shift) in 0..=31 x 7..=64 x 7..=64 x 0..6: score_strings(n) of a position array holding a run-free string of length l1 against a shifted, partly rewritten window of length <= l2 equals min(raw score, 2^n*min(l1,l2)) below the capping border and the raw score from it upward (reference: ssdeep's score_strings); non-trivial = pairs with a common 7-gram; distinct by construction",
        total,
        true,
        |i| {
            let (a, b) = strings(7 + (i / (58 * SHIFTS)) % 58, 7 + (i / SHIFTS) % 58, i % SHIFTS);
            json!({"n": i / (58 * 58 * SHIFTS), "a": a, "b": b})
        },
        |lo, hi, st: &mut Stats| {
            for i in lo..hi {
                let n = (i / (58 * 58 * SHIFTS)) as u8;
                let (a, b) = strings(7 + (i / (58 * SHIFTS)) % 58, 7 + (i / SHIFTS) % 58, i % SHIFTS);
                let mut pa = BlockHashPositionArray::new();
                must("init_from", || pa.init_from(&a)).map_err(|m| (i, m))?;
                let got = must("score_strings", || pa.score_strings(&b, n)).map_err(|m| (i, m))?;
                let exp = oracle::cmp::score_strings(&a, &b, 3u64 << n);
                if got != exp {
                    return Err((i, format!("score_strings(a={:?}, b={:?}, log block size {}) = {} expected {}", a, b, n, got, exp)));
                }
                st.count(1);
                if oracle::cmp::has_common_7gram(&a, &b) {
                    st.nontrivial_distinct(1);
                }
            }
            Ok(())
        },
    )
}

pub fn subchecks(_tier: Tier) -> Vec<SubCheck> {
    vec![sub_is_valid(), sub_logs(), sub_relations(), sub_raw_score(), sub_score_cap(), sub_capped_scores()]
}
