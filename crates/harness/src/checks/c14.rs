//! C14 - optional build features do not change results: byte-compared transcripts of a seeded
//! corpus across 7 feature sets x 2 assertion profiles (one probe binary per configuration).

use crate::checks::{c02, c13};
use crate::engine::{Ctx, Failure, Stats, SubCheck, SubResult, Tier};
use crate::gens;
use crate::segs::OwnedSeg;
use corpus::{Line, Seg, H};
use oracle::fmt::{collapse, format_hash};
use oracle::parse::{parse_ref, Counting};
use proptest::prelude::*;
use proptest::strategy::ValueTree;
use proptest::test_runner::{Config, RngAlgorithm, TestRng, TestRunner};
use serde_json::{json, Value};
use std::collections::BTreeMap;
use std::path::PathBuf;
use std::time::Instant;

pub const CONFIGS: [(&str, &str); 7] = [
    ("f-default", "default"),
    ("f-unsafe", "unsafe"),
    ("f-unchecked", "unchecked"),
    ("f-reduce-fnv", "opt-reduce-fnv-table"),
    ("f-unsafe-reduce-fnv", "unsafe+opt-reduce-fnv-table"),
    ("f-strict", "strict-parser"),
    ("f-nodefault", "no-default-features"),
];

pub fn root() -> PathBuf {
    std::env::var("VERIF_ROOT").map(PathBuf::from).unwrap_or_else(|_| PathBuf::from("/verif"))
}

fn probe_path(cfg: &str, profile: &str) -> PathBuf {
    let base = std::env::var("FFV_CFG_TARGET").map(PathBuf::from).unwrap_or_else(|_| root().join("target-cfg"));
    base.join(cfg).join(profile).join("cfgprobe")
}

fn h_of(r: &gens::RawH) -> H {
    H { log: r.log, bh1: r.bh1.clone(), bh2: r.bh2.clone() }
}

fn line_strategy(wt: u64) -> impl Strategy<Value = Line> {
    let chunks = proptest::collection::vec((0u8..4, prop_oneof![3 => 1u32..=9, 2 => 1u32..=5000, 1 => Just(u32::MAX)]), 0..5);
    prop_oneof![
        // generator over real bytes
        5 => (gens::prog_mix(wt, 1 << 14, 6), chunks.clone(), 0u8..3).prop_map(|(p, chunks, declare)| Line::Gen { segs: vec![Seg::Bytes(p.render())], chunks, declare }),
        // generator at large sizes through the zero-feeding hook (drives elimination / last hash at high levels)
        3 => (c13::strategy(wt), chunks).prop_map(|(c, chunks)| {
            let (_, owned) = c13::build_segs(&c);
            let segs = owned.into_iter().map(|s| match s { OwnedSeg::Bytes(b) => Seg::Bytes(b), OwnedSeg::Zeros(z) => Seg::Zeros(z) }).collect();
            Line::Gen { segs, chunks, declare: c.declare }
        }),
        8 => gens::text_mix().prop_map(|text| Line::Parse { text }),
        5 => (gens::raw_hash(64), gens::raw_hash(64), any::<u16>()).prop_map(|(h, o, buf_len)| Line::Obj { h: h_of(&h), other: h_of(&o), buf_len }),
        6 => c02::strategy().prop_map(|c| Line::Cmp { a: h_of(&c.a), b: h_of(&c.b) }),
    ]
}

pub fn make_corpus(ctx: &Ctx, n: usize) -> Vec<Line> {
    let seed = ctx.worker_seed("c14-corpus", 0);
    let mut runner = TestRunner::new_with_rng(Config::default(), TestRng::from_seed(RngAlgorithm::ChaCha, &seed));
    let strat = line_strategy(ctx.aux_seed("words"));
    (0..n).map(|_| strat.new_tree(&mut runner).expect("strategy").current()).collect()
}

pub fn run_probe(cfg: &str, profile: &str, corpus: &std::path::Path) -> Result<Vec<String>, String> {
    let exe = probe_path(cfg, profile);
    if !exe.exists() {
        return Err(format!("HARNESS: missing probe binary {} (run ./check --setup)", exe.display()));
    }
    let out = std::process::Command::new(&exe)
        .arg("eval")
        .arg(corpus)
        .output()
        .map_err(|e| format!("HARNESS: cannot run {}: {}", exe.display(), e))?;
    let text = String::from_utf8_lossy(&out.stdout);
    let lines: Vec<String> = text.lines().map(|s| s.to_string()).collect();
    if !out.status.success() {
        // killed by a signal / aborted: the line being evaluated is the first one without output
        return Ok(lines.into_iter().chain(std::iter::once(format!("#DIED# status={:?}", out.status))).collect());
    }
    Ok(lines)
}

/// parse one "X=OK,..." / "X=ERR,..." token list of a P| transcript line
fn parse_tokens(line: &str) -> BTreeMap<String, Vec<String>> {
    let mut m = BTreeMap::new();
    if let Some(rest) = line.strip_prefix("P|") {
        for tok in rest.split(';') {
            if let Some((k, v)) = tok.split_once('=') {
                m.insert(k.to_string(), v.split(',').map(|s| s.to_string()).collect());
            }
        }
    }
    m
}

/// the strict-parser relation for one Parse line
pub fn judge_strict(text: &[u8], strict_line: &str, default_line: &str) -> Result<(), String> {
    let st = parse_tokens(strict_line);
    let df = parse_tokens(default_line);
    let types: [(&str, usize, u8); 6] = [("R", 32, 0), ("LR", 64, 0), ("N", 32, 1), ("LN", 64, 1), ("D", 32, 2), ("LD", 64, 2)];
    let mut accepted: BTreeMap<usize, Vec<bool>> = BTreeMap::new();
    for (name, cap2, kind) in types {
        let s = st.get(name).ok_or_else(|| format!("strict transcript lacks {}", name))?;
        let d = df.get(name).ok_or_else(|| format!("default transcript lacks {}", name))?;
        let (exp, info) = parse_ref(text, 64, cap2, Counting::Raw);
        let s_ok = s[0] == "OK";
        accepted.entry(cap2).or_default().push(s_ok);
        match (&exp, s_ok) {
            (Ok(p), true) => {
                let (e_main, e_raw) = match kind {
                    0 => (format_hash(p.log, &p.bh1, &p.bh2), "-".to_string()),
                    1 => (format_hash(p.log, &collapse(&p.bh1), &collapse(&p.bh2)), "-".to_string()),
                    _ => (format_hash(p.log, &collapse(&p.bh1), &collapse(&p.bh2)), format_hash(p.log, &p.bh1, &p.bh2)),
                };
                if s[1] != e_main || s[2] != e_raw || s[3] != p.end.to_string() || s[4] != "true" {
                    return Err(format!("strict parser, type {}: accepted with {:?}, expected content {} / {} index {}", name, s, e_main, e_raw, p.end));
                }
            }
            (Err(o), false) => {
                if s[2] != format!("{:?}", o) {
                    return Err(format!("strict parser, type {}: error origin {} but the reference says {:?}", name, s[2], o));
                }
                if s[4] != usize::MAX.to_string() {
                    return Err(format!("strict parser, type {}: index modified on failure", name));
                }
            }
            (Ok(_), false) => return Err(format!("strict parser, type {}: rejected ({:?}) a text every raw block hash of which fits", name, s)),
            (Err(o), true) => return Err(format!("strict parser, type {}: accepted a text the raw-counting grammar rejects (reference origin {:?})", name, o)),
        }
        // relation to the default parser: it may differ only by rejecting raw-too-long texts
        if s != d {
            let d_ok = d[0] == "OK";
            if d_ok && !s_ok {
                let too_long = info.bh1_raw.map(|l| l > 64).unwrap_or(false) || info.bh2_raw.map(|l| l > cap2).unwrap_or(false);
                if !too_long {
                    return Err(format!("strict parser, type {}: rejects a text the default parser accepts although no raw block hash exceeds its capacity", name));
                }
            } else if !d_ok && !s_ok {
                // both reject: kind / offset / origin may differ (the strict parser may meet an over-long
                // raw field before the defect the default parser reports); the strict origin has been
                // judged against the raw-counting reference above
            } else {
                return Err(format!("strict vs default parser, type {}: strict {:?} default {:?}", name, s, d));
            }
        }
    }
    for (cap, v) in accepted {
        if !(v.iter().all(|&x| x) || v.iter().all(|&x| !x)) {
            return Err(format!("strict parser: raw / normalising / dual types of width {} do not accept the same texts: {:?}", cap, v));
        }
    }
    Ok(())
}

fn run_c14(ctx: &Ctx, n: usize) -> SubResult {
    let t0 = Instant::now();
    let name = "transcripts_across_configurations";
    let rule = "seeded corpus (generator over real bytes with chunkings and size declarations; generator at sizes up to 192 GiB+k through the zero-feeding hook; parser texts; object-level conversions / normalisation / dual round trips / formatter buffers / Eq / Ord; comparisons incl. position arrays and windows) evaluated by one probe binary per configuration with the core API only; transcripts must be byte-identical to default/release for {default, unsafe, unchecked, opt-reduce-fnv-table, unsafe+opt-reduce-fnv-table, no-default-features} x {release, release+debug-assertions}; unchecked twins and easy functions are compared in-process inside the probes that have them; strict-parser: judged against the raw-counting reference grammar and the 'differs only by rejecting raw-too-long texts' relation; non-trivial = lines whose default result contains no error/panic marker; distinct by line";
    let mut stats = Stats::default();
    let mut extra = BTreeMap::new();
    let fail = |msg: String, case: Value, hf: bool, stats: Stats, extra: BTreeMap<String, Value>| SubResult {
        name: name.to_string(),
        rule: rule.to_string(),
        stats,
        samples: vec![],
        exhaustive: false,
        failure: Some(Failure { subcheck: name.to_string(), message: msg, case, harness_fault: hf }),
        wall_s: t0.elapsed().as_secs_f64(),
        extra,
    };
    let corpus = make_corpus(ctx, n);
    let dir = root().join("target").join("c14");
    let _ = std::fs::create_dir_all(&dir);
    let path = dir.join(format!("corpus-{}-{}-{}.jsonl", ctx.tier.name(), ctx.seed, std::process::id()));
    {
        let mut s = String::new();
        for l in &corpus {
            s.push_str(&serde_json::to_string(l).unwrap());
            s.push('\n');
        }
        if let Err(e) = std::fs::write(&path, s) {
            return fail(format!("HARNESS-PANIC: cannot write corpus: {}", e), Value::Null, true, stats, extra);
        }
    }
    // run all probes in parallel
    let jobs: Vec<(String, String, String)> = CONFIGS
        .iter()
        .flat_map(|(c, n)| ["release", "relda"].iter().map(move |p| (c.to_string(), n.to_string(), p.to_string())))
        .collect();
    let results: Vec<(String, String, Result<Vec<String>, String>)> = std::thread::scope(|sc| {
        let hs: Vec<_> = jobs
            .iter()
            .map(|(c, n, p)| {
                let path = &path;
                sc.spawn(move || (n.clone(), p.clone(), run_probe(c, p, path)))
            })
            .collect();
        hs.into_iter().map(|h| h.join().expect("probe thread")).collect()
    });
    let _ = std::fs::remove_file(&path);
    let mut transcripts: BTreeMap<(String, String), Vec<String>> = BTreeMap::new();
    for (n, p, r) in results {
        match r {
            Ok(t) => {
                transcripts.insert((n, p), t);
            }
            Err(e) => return fail(format!("HARNESS-PANIC: {}", e), Value::Null, true, stats, extra),
        }
    }
    let base = transcripts[&("default".to_string(), "release".to_string())].clone();
    if base.len() != corpus.len() {
        return fail(
            format!("default/release probe produced {} lines for {} cases (last: {:?})", base.len(), corpus.len(), base.last()),
            json!({"line": corpus.get(base.len().saturating_sub(1)), "config": "default/release"}),
            false,
            stats,
            extra,
        );
    }
    let mut samples = Vec::new();
    stats.evaluations = transcripts.values().map(|t| t.len() as u64).sum();
    for (i, l) in corpus.iter().enumerate() {
        let kind = match l {
            Line::Gen { segs, .. } => {
                if segs.iter().any(|s| matches!(s, Seg::Zeros(z) if *z > 0)) {
                    "line=gen_hook"
                } else {
                    "line=gen"
                }
            }
            Line::Parse { .. } => "line=parse",
            Line::Obj { .. } => "line=obj",
            Line::Cmp { .. } => "line=cmp",
        };
        stats.class(kind);
        let b = &base[i];
        if b.contains("#PANIC#") || b.contains("MISMATCH#") || b.contains("#BADLINE#") || b.contains("#DIED#") {
            let lj = serde_json::to_value(l).unwrap();
            return fail(format!("default/release probe reports {} for line {}", &b[..b.len().min(300)], i), json!({"line": lj, "config": "default/release"}), false, stats, extra);
        }
        if !b.contains('!') && !b.contains("=ERR,") {
            stats.nontrivial(oracle::fingerprint(serde_json::to_string(l).unwrap().as_bytes()));
            if samples.len() < 3 && i % 7 == 3 {
                let mut lj = serde_json::to_string(l).unwrap();
                lj.truncate(600);
                samples.push(json!({"line": lj, "default_release": b.chars().take(400).collect::<String>()}));
            }
        }
    }
    for ((cfg, prof), t) in &transcripts {
        stats.class(&format!("config={}/{}", cfg, prof));
        for i in 0..corpus.len() {
            let got = t.get(i).cloned().unwrap_or_else(|| "#MISSING# (probe died)".to_string());
            let lj = || serde_json::to_value(&corpus[i]).unwrap();
            if cfg == "strict-parser" {
                if let Line::Parse { text } = &corpus[i] {
                    if got.contains("#PANIC#") || got.contains("#MISSING#") {
                        return fail(format!("{}/{}: {} on parse line {}", cfg, prof, got, i), json!({"line": lj(), "config": format!("{}/{}", cfg, prof)}), false, stats, extra);
                    }
                    if let Err(m) = judge_strict(text, &got, &base[i]) {
                        return fail(format!("{}/{} line {}: {}", cfg, prof, i, m), json!({"line": lj(), "config": format!("{}/{}", cfg, prof)}), false, stats, extra);
                    }
                    continue;
                }
            }
            if got != base[i] {
                let a: String = got.chars().take(500).collect();
                let b: String = base[i].chars().take(500).collect();
                return fail(
                    format!("{}/{} differs from default/release on line {}:\n  got:      {}\n  expected: {}", cfg, prof, i, a, b),
                    json!({"line": lj(), "config": format!("{}/{}", cfg, prof)}),
                    false,
                    stats,
                    extra,
                );
            }
        }
    }
    extra.insert("configurations".to_string(), json!(transcripts.keys().map(|(c, p)| format!("{}/{}", c, p)).collect::<Vec<_>>()));
    extra.insert("corpus_lines".to_string(), json!(corpus.len()));
    SubResult {
        name: name.to_string(),
        rule: rule.to_string(),
        stats,
        samples,
        exhaustive: false,
        failure: None,
        wall_s: t0.elapsed().as_secs_f64(),
        extra,
    }
}

/// replay: evaluate the saved line with the named configuration and with default/release
fn replay(v: &Value) -> Result<(), String> {
    let line: Line = serde_json::from_value(v["line"].clone()).map_err(|e| format!("cannot decode line: {}", e))?;
    let cfgname = v["config"].as_str().unwrap_or("default/release");
    let (cn, prof) = cfgname.split_once('/').unwrap_or((cfgname, "release"));
    let feat = CONFIGS.iter().find(|(_, n)| *n == cn).map(|(f, _)| *f).ok_or("unknown configuration")?;
    let dir = root().join("target").join("c14");
    let _ = std::fs::create_dir_all(&dir);
    let path = dir.join(format!("replay-{}.jsonl", std::process::id()));
    std::fs::write(&path, format!("{}\n", serde_json::to_string(&line).unwrap())).map_err(|e| e.to_string())?;
    let a = run_probe(feat, prof, &path)?;
    let b = run_probe("f-default", "release", &path)?;
    let _ = std::fs::remove_file(&path);
    let (a, b) = (a.first().cloned().unwrap_or_default(), b.first().cloned().unwrap_or_default());
    if b.contains("#PANIC#") || b.contains("MISMATCH#") {
        return Err(format!("default/release: {}", b));
    }
    if cn == "strict-parser" {
        if let Line::Parse { text } = &line {
            return judge_strict(text, &a, &b);
        }
    }
    if a != b {
        return Err(format!("{} differs from default/release: {} vs {}", cfgname, a.chars().take(400).collect::<String>(), b.chars().take(400).collect::<String>()));
    }
    Ok(())
}

/// Thorough tier: the `unsafe` feature sets executed by Miri (optimised profile settings, i.e. without
/// debug assertions, so that `invariant!` really is `assert_unchecked`) on a reduced corpus. Miri is only
/// the *executor* that makes undefined behaviour visible; the oracle is still the default/release transcript.
fn run_miri(ctx: &Ctx, n: usize) -> SubResult {
    let t0 = Instant::now();
    let name = "miri_unsafe_builds";
    let rule = "reduced corpus (generator inputs <= 2 KiB, no hook lines) evaluated by the `unsafe` and `unsafe+opt-reduce-fnv-table` probes under Miri: no undefined behaviour reported and transcripts identical to default/release; non-trivial = lines without error markers; distinct by line";
    let mut stats = Stats::default();
    let extra = BTreeMap::new();
    let mk_fail = |msg: String, case: Value, hf: bool, stats: Stats| SubResult {
        name: name.to_string(),
        rule: rule.to_string(),
        stats,
        samples: vec![],
        exhaustive: false,
        failure: Some(Failure { subcheck: name.to_string(), message: msg, case, harness_fault: hf }),
        wall_s: t0.elapsed().as_secs_f64(),
        extra: BTreeMap::new(),
    };
    let corpus: Vec<Line> = make_corpus(ctx, n * 3)
        .into_iter()
        .filter(|l| match l {
            Line::Gen { segs, .. } => segs.iter().all(|s| match s {
                Seg::Bytes(b) => b.len() <= 2048,
                Seg::Zeros(z) => *z == 0,
            }),
            _ => true,
        })
        .take(n)
        .collect();
    let dir = root().join("target").join("c14");
    let _ = std::fs::create_dir_all(&dir);
    let path = dir.join(format!("miri-corpus-{}-{}.jsonl", ctx.seed, std::process::id()));
    let body: String = corpus.iter().map(|l| serde_json::to_string(l).unwrap() + "\n").collect();
    if let Err(e) = std::fs::write(&path, body) {
        return mk_fail(format!("HARNESS-PANIC: cannot write corpus: {}", e), Value::Null, true, stats);
    }
    let base = match run_probe("f-default", "release", &path) {
        Ok(b) => b,
        Err(e) => return mk_fail(format!("HARNESS-PANIC: {}", e), Value::Null, true, stats),
    };
    let feats = ["f-unsafe", "f-unsafe-reduce-fnv"];
    let outs: Vec<(String, Result<std::process::Output, std::io::Error>)> = std::thread::scope(|sc| {
        let hs: Vec<_> = feats
            .iter()
            .map(|f| {
                let path = &path;
                sc.spawn(move || {
                    let o = std::process::Command::new("cargo")
                        .current_dir(root())
                        .args(["+nightly", "miri", "run", "--release", "-p", "cfgprobe", "--no-default-features", "--features", f, "--target-dir"])
                        .arg(root().join("target-miri").join(f))
                        .arg("--")
                        .arg("eval")
                        .arg(path)
                        .env("MIRIFLAGS", "-Zmiri-disable-isolation")
                        .env("RUSTFLAGS", "--cfg a4lg_ffuzzy_verif")
                        .env("CARGO_NET_OFFLINE", "true")
                        .output();
                    (f.to_string(), o)
                })
            })
            .collect();
        hs.into_iter().map(|h| h.join().expect("miri thread")).collect()
    });
    let _ = std::fs::remove_file(&path);
    for (f, o) in outs {
        let o = match o {
            Ok(o) => o,
            Err(e) => return mk_fail(format!("HARNESS-PANIC: cannot run cargo miri: {}", e), Value::Null, true, stats),
        };
        let stdout = String::from_utf8_lossy(&o.stdout);
        let stderr = String::from_utf8_lossy(&o.stderr);
        let lines: Vec<&str> = stdout.lines().filter(|l| !l.is_empty()).collect();
        stats.evaluations += lines.len() as u64;
        stats.class(&format!("miri:{}", f));
        let ub = stderr.contains("Undefined Behavior");
        for i in 0..corpus.len() {
            let got = lines.get(i).copied().unwrap_or("#MISSING#");
            if got != base[i] {
                let lj = serde_json::to_value(&corpus[i]).unwrap();
                let why = if ub && got == "#MISSING#" {
                    let at = stderr.find("Undefined Behavior").unwrap_or(0);
                    format!("Miri reports undefined behaviour while evaluating this line: {}", stderr[at..].chars().take(600).collect::<String>())
                } else {
                    format!("transcript differs: got {} expected {}", got.chars().take(300).collect::<String>(), base[i].chars().take(300).collect::<String>())
                };
                return mk_fail(format!("{} under Miri, line {}: {}", f, i, why), json!({"line": lj, "config": format!("{}/miri", f)}), false, stats);
            }
        }
        if !o.status.success() {
            let tail: String = stderr.chars().rev().take(800).collect::<String>().chars().rev().collect();
            return mk_fail(format!("HARNESS-PANIC: cargo miri run failed for {} although all transcript lines match: {}", f, tail), Value::Null, true, stats);
        }
    }
    for (i, l) in corpus.iter().enumerate() {
        if !base[i].contains('!') && !base[i].contains("=ERR,") {
            stats.nontrivial(oracle::fingerprint(serde_json::to_string(l).unwrap().as_bytes()));
        }
    }
    let samples = corpus.iter().take(2).map(|l| serde_json::to_value(l).unwrap()).collect();
    SubResult { name: name.to_string(), rule: rule.to_string(), stats, samples, exhaustive: false, failure: None, wall_s: t0.elapsed().as_secs_f64(), extra }
}

pub fn subchecks(tier: Tier) -> Vec<SubCheck> {
    let n = tier.pick(120_000usize, 1_500_000usize);
    let mut v = vec![SubCheck {
        name: "transcripts_across_configurations",
        run: Box::new(move |ctx| run_c14(ctx, n)),
        replay: Box::new(replay),
    }];
    if tier == Tier::Thorough {
        v.push(SubCheck {
            name: "miri_unsafe_builds",
            run: Box::new(move |ctx| run_miri(ctx, 400)),
            replay: Box::new(replay),
        });
    }
    v
}
