//! C08 - block-hash edit distance is the exact insert/delete (LCS) distance.
#![allow(deprecated)]

use crate::engine::{enumerated, generated, must, Stats, SubCheck, Tier};
use crate::gens;
use oracle::cmp::indel_distance;
use proptest::prelude::*;
use serde::{Deserialize, Serialize};
use serde_json::json;
use ssdeep::internal_comparison::{BlockHashPositionArray, BlockHashPositionArrayImpl};
use ssdeep::{FuzzyHashCompareTarget, LongFuzzyHash};

#[derive(Debug, Clone, Serialize, Deserialize)]
pub struct Case {
    pub a: Vec<u8>,
    pub b: Vec<u8>,
}

/// distance through a stand-alone position array built from `a`
pub fn dist_pa(a: &[u8], b: &[u8]) -> Result<u32, String> {
    let mut pa = BlockHashPositionArray::new();
    must("BlockHashPositionArray::init_from", || pa.init_from(a))?;
    must("edit_distance", || pa.edit_distance(b))
}

/// the same through a position array that held `b` before it was re-initialised from `a`
pub fn dist_pa_reused(a: &[u8], b: &[u8]) -> Result<u32, String> {
    let mut pa = BlockHashPositionArray::new();
    must("BlockHashPositionArray::init_from", || pa.init_from(b))?;
    must("BlockHashPositionArray::init_from", || pa.init_from(a))?;
    must("edit_distance", || pa.edit_distance(b))
}

/// distance through the position arrays inside a comparison target (a must be normalised)
pub fn dist_target(a: &[u8], b: &[u8]) -> Result<(u32, u32), String> {
    let h1 = must("new_from_internals_near_raw", || LongFuzzyHash::new_from_internals_near_raw(3, a, &[]))?;
    let h2 = must("new_from_internals_near_raw", || LongFuzzyHash::new_from_internals_near_raw(3, &[], a))?;
    // targets that held another hash before (its block hashes swapped, so that both the "empty block hash 1,
    // non-empty block hash 2" and the opposite situation precede the initialisation)
    let bn = oracle::fmt::collapse(b);
    let p1 = must("new_from_internals_near_raw", || LongFuzzyHash::new_from_internals_near_raw(4, &bn, &[]))?;
    let p2 = must("new_from_internals_near_raw", || LongFuzzyHash::new_from_internals_near_raw(4, &[], &bn))?;
    let mut t1 = must("FuzzyHashCompareTarget::from", || FuzzyHashCompareTarget::from(&p1))?;
    must("init_from", || t1.init_from(&h1))?;
    let mut t2 = must("FuzzyHashCompareTarget::from", || FuzzyHashCompareTarget::from(&p2))?;
    must("init_from", || t2.init_from(&h2))?;
    let d1 = must("block_hash_1().edit_distance", || t1.block_hash_1().edit_distance(b))?;
    let d2 = must("block_hash_2().edit_distance", || t2.block_hash_2().edit_distance(b))?;
    // targets whose earlier hash held `a` in the *other* block hash and a same-length relative of it (every
    // symbol + 1) in the one that is about to receive `a`
    let sh: Vec<u8> = a.iter().map(|&x| (x + 1) % 64).collect();
    let p3 = must("new_from_internals_near_raw", || LongFuzzyHash::new_from_internals_near_raw(3, &sh, a))?;
    let p4 = must("new_from_internals_near_raw", || LongFuzzyHash::new_from_internals_near_raw(3, a, &sh))?;
    let mut t3 = must("FuzzyHashCompareTarget::from", || FuzzyHashCompareTarget::from(&p3))?;
    must("init_from", || t3.init_from(&h1))?;
    let mut t4 = must("FuzzyHashCompareTarget::from", || FuzzyHashCompareTarget::from(&p4))?;
    must("init_from", || t4.init_from(&h2))?;
    let d3 = must("block_hash_1().edit_distance", || t3.block_hash_1().edit_distance(b))?;
    let d4 = must("block_hash_2().edit_distance", || t4.block_hash_2().edit_distance(b))?;
    if d3 != d1 || d4 != d2 {
        return Err(format!(
            "edit distance through a target that earlier held the string in its other block hash: {} / {} vs {} / {} (a={:?}, b={:?})",
            d3, d4, d1, d2, a, b
        ));
    }
    Ok((d1, d2))
}

pub fn check_pair(a: &[u8], b: &[u8], st: &mut Stats, with_target: bool) -> Result<(), String> {
    let d = indel_distance(a, b) as u32;
    let got = dist_pa(a, b)?;
    ensure_eq!(got, d, "edit_distance(a={:?}, b={:?})", a, b);
    let rev = dist_pa(b, a)?;
    ensure_eq!(rev, d, "edit_distance reversed (a={:?}, b={:?})", a, b);
    let re = dist_pa_reused(a, b)?;
    ensure_eq!(re, d, "edit_distance through a re-initialised position array (a={:?}, b={:?})", a, b);
    if with_target {
        if oracle::fmt::is_collapsed(a) {
            let (d1, d2) = dist_target(a, b)?;
            ensure_eq!(d1, d, "target.block_hash_1().edit_distance(a={:?}, b={:?})", a, b);
            ensure_eq!(d2, d, "target.block_hash_2().edit_distance(a={:?}, b={:?})", a, b);
            st.class("via_target");
        }
    }
    if !a.is_empty() && !b.is_empty() && d > 0 && (d as usize) < a.len() + b.len() {
        st.nontrivial(oracle::fingerprint(&[a, &[0xff][..], b].concat()));
    }
    Ok(())
}

fn nth_string(mut idx: u64, alpha: u64, syms: &[u8]) -> Vec<u8> {
    // strings ordered by length then lexicographically: idx 0 = "", then length 1 ...
    let mut len = 0u32;
    let mut count = 1u64;
    while idx >= count {
        idx -= count;
        len += 1;
        count *= alpha;
    }
    let mut v = vec![0u8; len as usize];
    for k in (0..len as usize).rev() {
        v[k] = syms[(idx % alpha) as usize];
        idx /= alpha;
    }
    v
}

fn num_strings(alpha: u64, maxlen: u32) -> u64 {
    (0..=maxlen).map(|l| alpha.pow(l)).sum()
}

fn exhaustive(name: &'static str, alpha: u64, maxlen: u32, syms: &'static [u8]) -> SubCheck {
    let n = num_strings(alpha, maxlen);
    let total = n * n;
    enumerated(
        name,
        "every ordered pair of strings over a small alphabet up to a length bound; non-trivial = both non-empty and 0 < d < la+lb; all pairs distinct by construction",
        total,
        true,
        move |i| json!({"a": nth_string(i / n, alpha, syms), "b": nth_string(i % n, alpha, syms)}),
        move |lo, hi, st| {
            for i in lo..hi {
                let a = nth_string(i / n, alpha, syms);
                let b = nth_string(i % n, alpha, syms);
                let d = indel_distance(&a, &b) as u32;
                let got = dist_pa(&a, &b).map_err(|m| (i, m))?;
                if got != d {
                    return Err((i, format!("edit_distance(a={:?}, b={:?}) = {} but LCS distance is {}", a, b, got, d)));
                }
                let re = dist_pa_reused(&a, &b).map_err(|m| (i, m))?;
                if re != d {
                    return Err((i, format!("edit_distance(a={:?}, b={:?}) through a re-initialised position array = {} but LCS distance is {}", a, b, re, d)));
                }
                st.count(1);
                if !a.is_empty() && !b.is_empty() && d > 0 && (d as usize) < a.len() + b.len() {
                    st.nontrivial_distinct(1);
                }
            }
            Ok(())
        },
    )
}

/// structured pairs: long runs, shifted / reversed copies, interleavings, length 63/64
pub fn strategy() -> impl Strategy<Value = Case> {
    let base = gens::block_hash(64);
    prop_oneof![
        3 => (gens::block_hash(64), gens::block_hash(64)).prop_map(|(a, b)| Case { a, b }),
        4 => (base, proptest::collection::vec(gens::edit(), 0..8)).prop_map(|(a, e)| {
            let b = gens::apply_edits(&a, &e, 64);
            Case { a, b }
        }),
        1 => (0u8..64, 0usize..=64, 0u8..64, 0usize..=64).prop_map(|(s, n, t, m)| Case { a: vec![s; n], b: vec![t; m] }),
        1 => (gens::block_hash(64), 0usize..64).prop_map(|(a, k)| {
            let mut b = a.clone();
            if !b.is_empty() { let k = k % b.len(); b.rotate_left(k); }
            Case { a, b }
        }),
        1 => gens::block_hash(64).prop_map(|a| { let mut b = a.clone(); b.reverse(); Case { a, b } }),
        1 => (0u8..64, 0u8..64, 32usize..=64).prop_map(|(s, t, n)| {
            // interleavings: long carry chains in the add/subtract recurrence
            let a: Vec<u8> = (0..n).map(|i| if i % 2 == 0 { s } else { t }).collect();
            let b: Vec<u8> = (0..n).map(|i| if i % 2 == 0 { t } else { s }).collect();
            Case { a, b }
        }),
        1 => (proptest::collection::vec(0u8..64, 63..=64), proptest::collection::vec(0u8..64, 63..=64)).prop_map(|(a, b)| Case { a, b }),
    ]
}

pub fn eval(case: &Case, st: &mut Stats) -> Result<(), String> {
    st.class(match (case.a.len(), case.b.len()) {
        (0, _) | (_, 0) => "some_empty",
        (63..=64, 63..=64) => "both_63_64",
        _ => "other_len",
    });
    check_pair(&case.a, &case.b, st, true)
}

pub fn subchecks(tier: Tier) -> Vec<SubCheck> {
    let mut v = vec![
        exhaustive("exhaustive_2sym_len7", 2, 7, &[0, 63]),
        exhaustive("exhaustive_3sym_len5", 3, 5, &[5, 17, 42]),
    ];
    if tier == Tier::Thorough {
        v.push(exhaustive("exhaustive_2sym_len9", 2, 9, &[1, 62]));
        v.push(exhaustive("exhaustive_4sym_len4", 4, 4, &[0, 21, 42, 63]));
    }
    v.push(generated(
        "generated_pairs",
        "pairs of strings <= 64 over alphabets 1..64: independent, derived by edits, runs, rotations, reversals, interleavings, lengths 63/64; also through FuzzyHashCompareTarget::block_hash_{1,2}() when a is normalised; non-trivial = both non-empty and 0 < d < la+lb; distinct by (a,b)",
        tier.pick(6_000_000, 60_000_000),
        strategy,
        eval,
    ));
    v
}
