//! C07 - dual hashes are a lossless, canonical encoding of raw plus normalised.

use crate::api::{build_raw, content, fixed_hash, fixed_hash2, hasher_input};
use crate::engine::{enumerated, generated, must, Stats, SubCheck, Tier};
use crate::gens::{self, RawH};
use oracle::fmt::{is_collapsed, rle_entries_needed};
use oracle::words::SplitMix;
use proptest::prelude::*;
use serde::{Deserialize, Serialize};
use serde_json::json;
use ssdeep::{DualFuzzyHash, LongDualFuzzyHash};
use std::cmp::Ordering;

#[derive(Debug, Clone, Serialize, Deserialize)]
pub struct Case {
    pub h: RawH,
    /// a different raw hash: content of the dirty destination and the inequality partner
    pub other: RawH,
}

macro_rules! dual_checks {
    ($dual:ty, $s2:expr, $h:expr, $other:expr, $st:expr) => {{
        let h: &RawH = $h;
        let other: &RawH = $other;
        let text = h.text();
        let raw = build_raw::<64, { $s2 }>(h)?;
        let oraw = build_raw::<64, { $s2 }>(other)?;
        let mut routes: Vec<(&'static str, $dual)> = Vec::new();
        routes.push(("from_raw_form", must("from_raw_form", || <$dual>::from_raw_form(&raw))?));
        routes.push(("From<raw>", must("From<raw>", || <$dual>::from(raw))?));
        routes.push(("new_from_internals", must("new_from_internals", || <$dual>::new_from_internals(raw.block_size(), &h.bh1, &h.bh2))?));
        routes.push(("new_from_internals_near_raw", must("new_from_internals_near_raw", || <$dual>::new_from_internals_near_raw(h.log, &h.bh1, &h.bh2))?));
        routes.push((
            "from_str",
            must("from_str", || text.parse::<$dual>())?.map_err(|e| format!("{} rejects {:?}: {:?}", stringify!($dual), text, e))?,
        ));
        let mut dirty = must("from_raw_form", || <$dual>::from_raw_form(&oraw))?;
        must("init_from_raw_form", || dirty.init_from_raw_form(&raw))?;
        routes.push(("init_from_raw_form on a used destination", dirty));
        let exp_norm = h.collapsed();
        let first = routes[0].1;
        for (name, d) in &routes {
            let name = format!("{}::{}", stringify!($dual), name);
            ensure!(must("is_valid", || d.is_valid())?, "{}: not valid [{}]", name, text);
            let back = must("to_raw_form", || d.to_raw_form())?;
            ensure!(must("full_eq", || back.full_eq(&raw))?, "{}: to_raw_form() is not full_eq to the source: {} vs {}", name, back, text);
            let mut dest = oraw;
            must("into_mut_raw_form", || d.into_mut_raw_form(&mut dest))?;
            ensure!(must("full_eq", || dest.full_eq(&raw))?, "{}: into_mut_raw_form() into a used destination is not full_eq to the source [{}]", name, text);
            ensure_eq!(must("to_raw_form_string", || d.to_raw_form_string())?, text, "{}: to_raw_form_string()", name);
            ensure_eq!(content(d.as_normalized()), exp_norm, "{}: as_normalized()", name);
            ensure_eq!(content(&must("to_normalized", || d.to_normalized())?), exp_norm, "{}: to_normalized()", name);
            ensure_eq!(must("to_normalized_string", || d.to_normalized_string())?, exp_norm.text(), "{}: to_normalized_string()", name);
            ensure_eq!(d.log_block_size(), h.log, "{}: log_block_size()", name);
            ensure_eq!(d.block_size() as u64, 3u64 << h.log, "{}: block_size()", name);
            ensure_eq!(must("is_normalized", || d.is_normalized())?, is_collapsed(&h.bh1) && is_collapsed(&h.bh2), "{}: is_normalized()", name);
            ensure_eq!(format!("{}", d), format!("{{{}|{}}}", exp_norm.text(), text), "{}: Display", name);
            // all routes equal under Eq / Hash / Ord
            ensure!(*d == first, "{}: != from_raw_form() of the same raw hash [{}]", name, text);
            ensure_eq!(fixed_hash(d), fixed_hash(&first), "{}: Hash output differs between routes", name);
            ensure_eq!(fixed_hash2(d), fixed_hash2(&first), "{}: Hash (2nd hasher) output differs between routes", name);
            ensure_eq!(d.cmp(&first), Ordering::Equal, "{}: cmp with from_raw_form() of the same raw hash", name);
            ensure_eq!(first.cmp(d), Ordering::Equal, "{}: cmp (reversed)", name);
        }
        // different raw hashes give different duals
        let od = must("from_raw_form", || <$dual>::from_raw_form(&oraw))?;
        ensure_eq!(od == first, other == h, "{}: equality of duals vs equality of raw hashes [{} / {}]", stringify!($dual), text, other.text());
        ensure_eq!(first == od, other == h, "{}: equality of duals (operands swapped) vs equality of raw hashes [{} / {}]", stringify!($dual), text, other.text());
        ensure_eq!(od != first, other != h, "{}: != of duals vs raw hashes [{} / {}]", stringify!($dual), text, other.text());
        // "hash as equal if and only if": what is fed to the hasher is the same exactly for equal raw hashes
        ensure_eq!(hasher_input(&od) == hasher_input(&first), other == h, "{}: equality of the byte streams fed to the hasher vs equality of raw hashes [{} / {}]", stringify!($dual), text, other.text());
        if other.collapsed() == h.collapsed() && other != h {
            $st.class("partner_shares_normalised_part");
        }
        ensure_eq!(od.cmp(&first) == Ordering::Equal, other == h, "{}: cmp == Equal vs equality of raw hashes [{} / {}]", stringify!($dual), text, other.text());
        // clearing the reverse-normalisation data
        let mut cleared = first;
        must("normalize_in_place", || cleared.normalize_in_place())?;
        ensure!(must("is_valid", || cleared.is_valid())?, "{}: normalize_in_place() left an invalid object", stringify!($dual));
        let norm_obj = must("normalize", || raw.normalize())?;
        let from_norm = must("from_normalized", || <$dual>::from_normalized(&norm_obj))?;
        ensure!(cleared == from_norm, "{}: normalize_in_place() != from_normalized(normalised) [{}]", stringify!($dual), text);
        let from_norm_raw = must("from_raw_form", || <$dual>::from_raw_form(&norm_obj.to_raw_form()))?;
        ensure!(cleared == from_norm_raw, "{}: normalize_in_place() != from_raw_form(normalised as raw) [{}]", stringify!($dual), text);
        ensure!(must("is_normalized", || cleared.is_normalized())?, "{}: is_normalized() false after normalize_in_place()", stringify!($dual));
        ensure!(<$dual>::from(norm_obj) == from_norm, "{}: From<normalised> != from_normalized", stringify!($dual));
        ensure_eq!(fixed_hash(&cleared), fixed_hash(&from_norm), "{}: Hash after normalize_in_place()", stringify!($dual));
        let _ = $st;
    }};
}

pub fn check_hash(h: &RawH, other: &RawH, st: &mut Stats) -> Result<(), String> {
    {
        let mut o = other.clone();
        o.bh2.truncate(64);
        dual_checks!(LongDualFuzzyHash, 64, h, &o, st);
    }
    if h.bh2.len() <= 32 {
        let mut o = other.clone();
        o.bh2.truncate(32);
        dual_checks!(DualFuzzyHash, 32, h, &o, st);
        st.class("short_too");
    }
    Ok(())
}

pub fn eval(case: &Case, st: &mut Stats) -> Result<(), String> {
    let h = &case.h;
    let need = rle_entries_needed(&h.bh1).max(rle_entries_needed(&h.bh2));
    if need >= 1 {
        st.nontrivial(h.fp());
    }
    st.class(match need {
        0 => "rle_entries=0",
        1 => "rle_entries=1",
        2..=4 => "rle_entries=2-4",
        5..=8 => "rle_entries=5-8",
        9..=15 => "rle_entries=9-15",
        _ => "rle_entries=16",
    });
    check_hash(h, &case.other, st)
}

/// systematic case i: a single run at (position p, length l) in block hash `which` of capacity cap
fn single_run_case(i: u64) -> (RawH, &'static str) {
    // enumerate (which/cap, p, l): which in {bh1 cap64, bh2 cap64, bh2 cap32}
    let mut idx = i;
    let mut found = (0usize, 0usize, 4usize);
    'outer: for (w, cap) in [(0usize, 64usize), (1, 64), (2, 32)] {
        for p in 0..cap {
            let maxl = cap - p;
            if maxl < 4 {
                continue;
            }
            let cnt = (maxl - 3) as u64;
            if idx < cnt {
                found = (w, p, 4 + idx as usize);
                break 'outer;
            }
            idx -= cnt;
        }
    }
    let (w, p, l) = found;
    let cap = if w == 2 { 32 } else { 64 };
    let mut r = SplitMix(i ^ 0xC07);
    // random distinct neighbours: no accidental runs (consecutive symbols differ)
    let total = p + l + ((r.next() as usize) % (cap - p - l + 1));
    let run_sym = (r.next() % 64) as u8;
    let mut s: Vec<u8> = Vec::with_capacity(total);
    for k in 0..total {
        if k >= p && k < p + l {
            s.push(run_sym);
        } else {
            let mut c = (r.next() % 64) as u8;
            let prev = if k > 0 { Some(s[k - 1]) } else { None };
            while Some(c) == prev || c == run_sym {
                c = (c + 1) % 64;
            }
            s.push(c);
        }
    }
    let log = (r.next() % 31) as u8;
    let h = match w {
        0 => RawH { log, bh1: s, bh2: vec![5, 6, 7] },
        _ => RawH { log, bh1: vec![9, 9, 8], bh2: s },
    };
    (h, if w == 2 { "single_run_short_bh2" } else if w == 0 { "single_run_bh1" } else { "single_run_long_bh2" })
}

fn single_run_total() -> u64 {
    let mut t = 0u64;
    for cap in [64usize, 64, 32] {
        for p in 0..cap {
            if cap - p >= 4 {
                t += (cap - p - 3) as u64;
            }
        }
    }
    t
}

fn systematic() -> SubCheck {
    enumerated(
        "every_single_run",
        "every single run (position p, length L >= 4, p+L <= capacity) in block hash 1 (64), block hash 2 (64) and block hash 2 of the short type (32), embedded in random run-free neighbours; all routes; non-trivial = all (each needs >= 1 RLE entry); distinct by construction",
        single_run_total(),
        true,
        |i| {
            let (h, l) = single_run_case(i);
            json!({"hash": h.text(), "kind": l})
        },
        |lo, hi, st| {
            for i in lo..hi {
                let (h, label) = single_run_case(i);
                let other = RawH { log: (h.log + 1) % 31, bh1: vec![1, 1, 1, 1, 1, 2], bh2: vec![3, 3, 3, 3] };
                check_hash(&h, &other, st).map_err(|m| (i, m))?;
                st.count(1);
                st.nontrivial_distinct(1);
                st.class(label);
            }
            Ok(())
        },
    )
}

/// many-run layouts that stress the RLE table: k runs of length 4..8 back to back
fn many_runs() -> impl Strategy<Value = RawH> {
    (
        gens::log_bs(),
        proptest::collection::vec((0u8..64, 4u8..=8), 1..=16),
        proptest::collection::vec((0u8..64, 1u8..=70), 0..=8),
        any::<bool>(),
    )
        .prop_map(|(log, a, b, short)| {
            let render = |runs: &[(u8, u8)], cap: usize| {
                let mut v = Vec::new();
                let mut prev = 255u8;
                for &(s, n) in runs {
                    let s = if s == prev { (s + 1) % 64 } else { s };
                    prev = s;
                    for _ in 0..n {
                        if v.len() < cap {
                            v.push(s);
                        }
                    }
                }
                v
            };
            RawH {
                log,
                bh1: render(&a, 64),
                bh2: render(&b, if short { 32 } else { 64 }),
            }
        })
}

/// two raw hashes with the same normalised form whose only long run has the same position and length,
/// once in block hash 1 and once in block hash 2 (their RLE entries are the same bytes in different blocks)
fn rle_swap_pair() -> impl Strategy<Value = Case> {
    (gens::log_bs(), 0usize..20, 0u8..64, 0u8..64, 1usize..9, proptest::collection::vec(0u8..64, 0..8), proptest::collection::vec(0u8..64, 0..8), any::<u64>()).prop_map(
        |(log, l, a, b, n, s1, s2, seed)| {
            let mut r = SplitMix(seed);
            let mut prefix = |avoid: u8| -> Vec<u8> {
                let mut v: Vec<u8> = Vec::new();
                while v.len() < l {
                    let c = (r.next() % 64) as u8;
                    if c != avoid && v.last() != Some(&c) {
                        v.push(c);
                    }
                }
                v
            };
            let (p1, p2) = (prefix(a), prefix(b));
            let tail = |s: &Vec<u8>, avoid: u8| -> Vec<u8> {
                let mut v: Vec<u8> = Vec::new();
                for &c in s {
                    let c = if c == avoid { (c + 1) % 64 } else { c };
                    if v.last() != Some(&c) && !(v.is_empty() && c == avoid) {
                        v.push(c);
                    }
                }
                v.truncate(4);
                v
            };
            let (t1, t2) = (tail(&s1, a), tail(&s2, b));
            let build = |p: &Vec<u8>, sym: u8, run: usize, t: &Vec<u8>| -> Vec<u8> {
                let mut v = p.clone();
                v.extend(std::iter::repeat(sym).take(run));
                v.extend(t.iter().copied());
                v
            };
            let h = RawH { log, bh1: build(&p1, a, 3 + n, &t1), bh2: build(&p2, b, 3, &t2) };
            let other = RawH { log, bh1: build(&p1, a, 3, &t1), bh2: build(&p2, b, 3 + n, &t2) };
            Case { h, other }
        },
    )
}

pub fn strategy() -> impl Strategy<Value = Case> {
    prop_oneof![9 => strategy_main(), 1 => rle_swap_pair()]
}

fn strategy_main() -> impl Strategy<Value = Case> {
    (
        prop_oneof![3 => gens::raw_hash(64), 2 => gens::raw_hash(32), 3 => many_runs()],
        prop_oneof![3 => gens::raw_hash(64), 1 => Just(RawH { log: 0, bh1: vec![], bh2: vec![] })],
        prop::bool::weighted(0.05),
    )
        .prop_map(|(h, other, same)| {
            let other = if same { h.clone() } else { other };
            Case { h, other }
        })
        .prop_flat_map(|c| {
            // a third of the partners share the normalised part with h (stretched or collapsed runs)
            (Just(c), 0u8..6, any::<u16>(), 1u8..5).prop_map(|(mut c, mode, at, n)| {
                match mode {
                    0 => c.other = c.h.collapsed(),
                    1 => {
                        let mut o = c.h.clone();
                        let second = at & 1 == 1;
                        let (bh, cap) = if second { (&mut o.bh2, 32usize) } else { (&mut o.bh1, 64usize) };
                        if !bh.is_empty() {
                            let p = crate::engine::pick_index(at, bh.len());
                            let s = bh[p];
                            for _ in 0..n {
                                if bh.len() < cap {
                                    bh.insert(p, s);
                                }
                            }
                        }
                        c.other = o;
                    }
                    _ => {}
                }
                c
            })
        })
}

pub fn subchecks(tier: Tier) -> Vec<SubCheck> {
    vec![
        systematic(),
        generated(
            "routes_and_roundtrip",
            "raw hashes of both capacities (run layouts, back-to-back runs of 4..8 filling the RLE table, runs ending at the capacity) x 6 construction routes incl. a used destination: valid, decompress to exactly the raw hash and its text, expose its normalisation, pairwise ==, equal Hash (two fixed hashers), cmp == Equal; different raw hashes give different duals; normalize_in_place = dual of the normalised hash; non-trivial = >= 1 RLE entry needed; distinct by text",
            tier.pick(1_200_000, 12_000_000),
            strategy,
            eval,
        ),
    ]
}
