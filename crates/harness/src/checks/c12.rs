//! C12 - fixed-size hint, reset and the generator's error contract (model-based, stateful).

use crate::engine::{generated, must, Stats, SubCheck, Tier};
use crate::gens::{self, Prog, Tok};
use crate::segs::{self, OwnedSeg, SegSpec};
use oracle::gen::{model_b_segs, GenErr, Seg, MAX_INPUT_SIZE};
use proptest::prelude::*;
use serde::{Deserialize, Serialize};
use ssdeep::{Generator, GeneratorError};

#[derive(Debug, Clone, Serialize, Deserialize)]
pub enum Op {
    /// kind: 0 exact total of this life, 1 total+1, 2 total-1, 3 `val`, 4 MAX, 5 MAX+1, 6 u64::MAX,
    /// 7 bytes fed so far, 8 repeat the accepted declaration, 9 accepted declaration + 1
    Declare { kind: u8, val: u64, usize_api: bool },
    /// feed the next `n` bytes of the current segment (form 0..5), or the whole zero segment
    Feed { n: u32, form: u8 },
    Finalize,
    Reset,
}

#[derive(Debug, Clone, Serialize, Deserialize)]
pub struct Case {
    /// lives[k] = input of the k-th life of the generator (between resets)
    pub lives: Vec<Vec<SegSpec>>,
    pub ops: Vec<Op>,
}

/// everything observable without feeding
fn observe(g: &Generator) -> Result<String, String> {
    let a = must("finalize", || g.finalize().map(|h| h.to_string()))?;
    let b = must("finalize_without_truncation", || g.finalize_without_truncation().map(|h| h.to_string()))?;
    let c = must("finalize_raw", || g.finalize_raw::<false, 64, 32>().map(|h| h.to_string()))?;
    let d = must("finalize_raw", || g.finalize_raw::<true, 64, 64>().map(|h| h.to_string()))?;
    Ok(format!(
        "{:?}|{:?}|{:?}|{:?}|size={}|warn={}",
        a,
        b,
        c,
        d,
        g.input_size(),
        must("may_warn", || g.may_warn_about_small_input_size())?
    ))
}

struct Life {
    owned: Vec<OwnedSeg>,
    /// what has been fed so far in this life, as reference segments
    fed: Vec<(usize, u64)>, // (segment index, amount)
    seg: usize,
    off: u64,
    total: u64,
}

impl Life {
    fn new(specs: &[SegSpec]) -> Self {
        let owned = segs::render(specs);
        let total = segs::total_len(&owned);
        Life { owned, fed: Vec::new(), seg: 0, off: 0, total }
    }
    fn fed_len(&self) -> u64 {
        self.fed.iter().map(|f| f.1).fold(0u64, |a, b| a.saturating_add(b))
    }
    fn fed_segs(&self) -> Vec<Seg<'_>> {
        // merge per segment
        let mut out: Vec<Seg> = Vec::new();
        let mut done: Vec<u64> = vec![0; self.owned.len()];
        for &(i, n) in &self.fed {
            match &self.owned[i] {
                OwnedSeg::Bytes(b) => out.push(Seg::Bytes(&b[done[i] as usize..(done[i] + n) as usize])),
                OwnedSeg::Zeros(_) => out.push(Seg::Zeros(n)),
            }
            done[i] += n;
        }
        out
    }
    fn seg_len(&self, i: usize) -> u64 {
        match &self.owned[i] {
            OwnedSeg::Bytes(b) => b.len() as u64,
            OwnedSeg::Zeros(z) => *z,
        }
    }
}

fn feed_both(g: &mut Generator, shadow: &mut Option<Generator>, chunk: &[u8], form: u8) -> Result<(), String> {
    let mut one = |g: &mut Generator| -> Result<(), String> {
        match form % 5 {
            0 => must("update", || {
                g.update(chunk);
            }),
            1 => must("update_by_iter", || {
                g.update_by_iter(chunk.iter().copied());
            }),
            2 => must("update_by_byte", || {
                for &b in chunk {
                    g.update_by_byte(b);
                }
            }),
            3 => must("+= &[u8]", || {
                *g += chunk;
            }),
            _ => must("+= u8", || {
                for &b in chunk {
                    *g += b;
                }
            }),
        }
    };
    one(g)?;
    if let Some(s) = shadow {
        one(s)?;
    }
    Ok(())
}

pub fn eval(case: &Case, st: &mut Stats) -> Result<(), String> {
    if case.lives.is_empty() {
        return Ok(());
    }
    let mut life_no = 0usize;
    let mut life = Life::new(&case.lives[0]);
    let mut g = Generator::new();
    // a fresh generator running in lock-step since the last reset
    let mut shadow: Option<Generator> = None;
    let mut declared: Option<u64> = None;
    let mut finals = 0;
    let mut nt = false;
    let mut first_life_marks = (false, false); // (eliminated, last hash) seen before a reset
    let mut ops: Vec<Op> = case.ops.clone();
    // every history ends by feeding the rest of the current life and finalising
    ops.push(Op::Feed { n: u32::MAX, form: 0 });
    ops.push(Op::Feed { n: u32::MAX, form: 0 });
    ops.push(Op::Feed { n: u32::MAX, form: 0 });
    ops.push(Op::Feed { n: u32::MAX, form: 0 });
    ops.push(Op::Finalize);
    let nops = ops.len();
    for (opi, op) in ops.iter().enumerate() {
        let forced_final = opi + 1 == nops;
        match op {
            Op::Declare { kind, val, usize_api } => {
                let fed = life.fed_len();
                let s: u64 = match kind % 10 {
                    0 => life.total,
                    1 => life.total.saturating_add(1),
                    2 => life.total.saturating_sub(1),
                    3 => *val,
                    4 => MAX_INPUT_SIZE,
                    5 => MAX_INPUT_SIZE + 1,
                    6 => u64::MAX,
                    7 => fed,
                    8 => declared.unwrap_or(life.total),
                    _ => declared.unwrap_or(life.total).saturating_add(1),
                };
                let before = observe(&g)?;
                let clone_before = must("clone", || g.clone())?;
                let r = if *usize_api {
                    must("set_fixed_input_size_in_usize", || g.set_fixed_input_size_in_usize(s as usize))?
                } else {
                    must("set_fixed_input_size", || g.set_fixed_input_size(s))?
                };
                if let Some(sh) = &mut shadow {
                    let r2 = must("set_fixed_input_size", || sh.set_fixed_input_size(s))?;
                    ensure_eq!(r, r2, "after reset: set_fixed_input_size({}) on the re-used generator vs a fresh one", s);
                }
                let too_large = s > MAX_INPUT_SIZE;
                let mismatch = matches!(declared, Some(d) if d != s);
                if too_large && mismatch {
                    ensure!(
                        r == Err(GeneratorError::FixedSizeTooLarge) || r == Err(GeneratorError::FixedSizeMismatch),
                        "set_fixed_input_size({}) with {:?} declared before: got {:?}",
                        s,
                        declared,
                        r
                    );
                    st.class("declare:too_large+mismatch");
                } else if too_large {
                    ensure_eq!(r, Err(GeneratorError::FixedSizeTooLarge), "set_fixed_input_size({}) above the limit", s);
                    st.class("declare:too_large");
                } else if mismatch {
                    ensure_eq!(r, Err(GeneratorError::FixedSizeMismatch), "set_fixed_input_size({}) after declaring {:?}", s, declared);
                    st.class("declare:mismatch");
                } else {
                    ensure_eq!(r, Ok(()), "set_fixed_input_size({}) (declared before: {:?})", s, declared);
                    if declared.is_none() && fed > 0 {
                        st.class("declare:midstream");
                        nt = true;
                    }
                    st.class(if s == life.total { "declare:accepted_exact" } else { "declare:accepted_other" });
                    declared = Some(s);
                }
                if r.is_err() {
                    // a refused declaration leaves the generator unchanged: same observables now and
                    // after a common continuation
                    ensure_eq!(observe(&g)?, before, "observables changed by a refused set_fixed_input_size({})", s);
                    let mut c1 = clone_before;
                    let mut c2 = must("clone", || g.clone())?;
                    if life.seg < life.owned.len() {
                        if let OwnedSeg::Bytes(b) = &life.owned[life.seg] {
                            let lo = life.off as usize;
                            let hi = (lo + 200).min(b.len());
                            must("update", || {
                                c1.update(&b[lo..hi]);
                                c2.update(&b[lo..hi]);
                            })?;
                        }
                    }
                    ensure_eq!(observe(&c1)?, observe(&c2)?, "behaviour after a refused set_fixed_input_size({}) differs from a clone taken before it", s);
                }
            }
            Op::Feed { n, form } => {
                if life.seg >= life.owned.len() {
                    continue;
                }
                let i = life.seg;
                let left = life.seg_len(i) - life.off;
                match &life.owned[i] {
                    OwnedSeg::Bytes(b) => {
                        let n = (*n as u64).min(left);
                        let lo = life.off as usize;
                        feed_both(&mut g, &mut shadow, &b[lo..lo + n as usize], *form)?;
                        life.fed.push((i, n));
                        life.off += n;
                    }
                    OwnedSeg::Zeros(_) => {
                        must("verif_feed_zeroes", || {
                            g.verif_feed_zeroes(left);
                        })?;
                        if let Some(sh) = &mut shadow {
                            must("verif_feed_zeroes", || {
                                sh.verif_feed_zeroes(left);
                            })?;
                        }
                        life.fed.push((i, left));
                        life.off += left;
                    }
                }
                if life.off >= life.seg_len(i) {
                    life.seg += 1;
                    life.off = 0;
                }
            }
            Op::Finalize => {
                if finals >= 4 && !forced_final {
                    continue;
                }
                finals += 1;
                let fed = life.fed_len();
                let obs = observe(&g)?;
                let warn_exp = declared.unwrap_or(fed) < 4097;
                ensure!(obs.ends_with(&format!("warn={}", warn_exp)), "may_warn_about_small_input_size() with declared {:?}, fed {}: {}", declared, fed, obs);
                ensure_eq!(g.input_size(), fed, "input_size()");
                if matches!(declared, Some(d) if d != fed) {
                    for (name, r) in [
                        ("finalize", must("finalize", || g.finalize().map(|h| h.to_string()))?),
                        ("finalize_without_truncation", must("finalize_without_truncation", || g.finalize_without_truncation().map(|h| h.to_string()))?),
                        ("finalize_raw<false,64,32>", must("finalize_raw", || g.finalize_raw::<false, 64, 32>().map(|h| h.to_string()))?),
                        ("finalize_raw<true,64,64>", must("finalize_raw", || g.finalize_raw::<true, 64, 64>().map(|h| h.to_string()))?),
                    ] {
                        ensure_eq!(r, Err(GeneratorError::FixedSizeMismatch), "{}() with {:?} declared and {} bytes fed", name, declared, fed);
                    }
                    st.class("finalize:size_mismatch");
                } else {
                    let fs = life.fed_segs();
                    match model_b_segs(&fs, None) {
                        Err(GenErr::InputSizeTooLarge) => {
                            let r = must("finalize", || g.finalize().map(|h| h.to_string()))?;
                            ensure_eq!(r, Err(GeneratorError::InputSizeTooLarge), "finalize() with {} bytes fed", fed);
                            st.class("finalize:too_large");
                        }
                        Err(e) => panic!("model B: {:?}", e),
                        Ok((r, s)) => {
                            crate::checks::c01::check_generator_output(&g, &r, &format!("life {} after {} bytes, declared {:?}", life_no, fed, declared))?;
                            // the same bytes through a fresh, undeclared generator
                            let mut fresh = Generator::new();
                            for sg in &fs {
                                match sg {
                                    Seg::Bytes(b) => {
                                        fresh.update(b);
                                    }
                                    Seg::Zeros(z) => {
                                        fresh.verif_feed_zeroes(*z);
                                    }
                                }
                            }
                            let of = observe(&fresh)?;
                            let strip = |s: &str| s.rsplit_once("|warn=").map(|x| x.0.to_string()).unwrap_or_default();
                            ensure_eq!(strip(&obs), strip(&of), "declared {:?} / life {}: results differ from a fresh undeclared generator fed the same {} bytes", declared, life_no, fed);
                            st.class(if declared.is_some() { "finalize:ok_declared" } else { "finalize:ok_undeclared" });
                            if r.log == 30 && s.lasth && s.cnt_next == 0 && !s.rend_zero {
                                st.class(if life_no > 0 { "bh2_from_last_hash_after_reset" } else { "bh2_from_last_hash" });
                            }
                            if life_no == 0 {
                                first_life_marks.0 |= s.eliminated > 0;
                                first_life_marks.1 |= s.lasth;
                            }
                        }
                    }
                }
            }
            Op::Reset => {
                // remember what the life that ends here had done
                if life_no == 0 {
                    if let Ok((_, s)) = model_b_segs(&life.fed_segs(), None) {
                        first_life_marks.0 |= s.eliminated > 0;
                        first_life_marks.1 |= s.lasth;
                    }
                }
                must("reset", || g.reset())?;
                shadow = Some(Generator::new());
                life_no += 1;
                let next = &case.lives[life_no.min(case.lives.len() - 1)];
                life = Life::new(next);
                if first_life_marks.0 || first_life_marks.1 || declared.is_some() {
                    nt = true;
                }
                if first_life_marks.0 {
                    st.class("reset_after_elimination");
                }
                if first_life_marks.1 {
                    st.class("reset_after_last_hash");
                }
                if declared.is_some() {
                    st.class("reset_after_declaration");
                }
                declared = None;
                st.class("reset");
            }
        }
        if let Some(sh) = &shadow {
            ensure_eq!(observe(&g)?, observe(sh)?, "after reset (life {}), step {:?}: re-used generator differs from a fresh one running the same history", life_no, op);
        }
    }
    if nt {
        st.nontrivial(oracle::fingerprint(format!("{:?}", case).as_bytes()));
    }
    Ok(())
}

fn life(wt: u64, max_n: u32, huge: bool) -> impl Strategy<Value = Vec<SegSpec>> {
    let prog = prop_oneof![
        3 => gens::prog_mix(wt, max_n, 9),
        // a life that activates the last hash and fills the first context
        2 => (gens::prog_aimed(wt, 8), 0u8..4).prop_map(|(mut p, v)| {
            p.toks.insert(0, Tok::Word { level: 30, variant: v });
            p
        }),
        1 => Just(Prog { wt, toks: vec![], target: None, pad_zeros: true, pad_seed: 0 }),
    ];
    if huge {
        // one in three huge lives ends at the largest block size with block hash 2 taken from the
        // dedicated last-piece hash: > 96 GiB of zeros, >= 32 level-30 words, non-zero final rolling value
        let top = (any::<bool>(), 0u64..(90u64 << 30), 32u8..=70, any::<u64>(), 0u8..4, 1u32..9, any::<u64>()).prop_map(move |(w30_first, extra, n30, order, filler, tail_n, tail_seed)| {
            let mut v = Vec::new();
            if w30_first {
                v.push(SegSpec::Prog(Prog { wt, toks: vec![Tok::Word { level: 30, variant: 1 }], target: None, pad_zeros: true, pad_seed: 0 }));
            }
            v.push(SegSpec::Zeros((96u64 << 30) + 1 + extra));
            v.push(SegSpec::Prog(Prog {
                wt,
                toks: vec![Tok::Aimed { t: 30, c_hi: 0, c_mid: n30, c_lo: n30, order, filler }, Tok::Rand { seed: tail_seed, n: tail_n }],
                target: None,
                pad_zeros: true,
                pad_seed: 0,
            }));
            v
        });
        let general = (
            prog,
            prop_oneof![
                3 => (28u32..=37, any::<u64>()).prop_map(|(b, r)| (1u64 << b) + r % (1u64 << b)),
                1 => (0u64..64).prop_map(|k| MAX_INPUT_SIZE - 32 + k),
                1 => Just(0u64),
            ],
            gens::prog_aimed(wt, 8),
            any::<bool>(),
        )
            .prop_map(|(p1, z, p2, zfirst)| {
                if zfirst {
                    vec![SegSpec::Zeros(z), SegSpec::Prog(p1), SegSpec::Prog(p2)]
                } else {
                    vec![SegSpec::Prog(p1), SegSpec::Zeros(z), SegSpec::Prog(p2)]
                }
            });
        prop_oneof![2 => general, 1 => top].boxed()
    } else {
        prog.prop_map(|p| vec![SegSpec::Prog(p)]).boxed()
    }
}

fn op(max_n: u32) -> impl Strategy<Value = Op> {
    prop_oneof![
        4 => (prop_oneof![4 => Just(0u8), 1 => 1u8..10], any::<u64>(), any::<bool>()).prop_map(|(kind, val, usize_api)| Op::Declare { kind, val, usize_api }),
        6 => (prop_oneof![1 => Just(0u32), 3 => 1u32..=9, 3 => gens::size_log_uniform(max_n), 1 => Just(u32::MAX)], 0u8..5).prop_map(|(n, form)| Op::Feed { n, form }),
        1 => Just(Op::Finalize),
        2 => Just(Op::Reset),
    ]
}

pub fn strategy(wt: u64, tier: Tier) -> impl Strategy<Value = Case> {
    let max_n = tier.pick(1u32 << 16, 1u32 << 20);
    (
        proptest::collection::vec(prop_oneof![3 => life(wt, max_n, false), 1 => life(wt, 1 << 12, true)], 1..=3),
        proptest::collection::vec(op(max_n), 0..tier.pick(24usize, 60usize)),
    )
        .prop_map(|(lives, ops)| Case { lives, ops })
}

pub fn subchecks(tier: Tier) -> Vec<SubCheck> {
    let wt_seed = move || -> u64 {
        std::env::var("VERIF_SEED").ok().and_then(|s| s.trim().parse::<i128>().ok()).map(|v| v as u64).unwrap_or(0) ^ 0xC12
    };
    vec![generated(
        "declare_reset_contract",
        "histories over one generator: declarations (exact / off by one / arbitrary / MAX / MAX+1 / u64::MAX / bytes fed so far / repeated, both APIs) at arbitrary points, updates in all forms, finalisations, resets; up to three lives whose inputs are word programs (elimination, last-hash activation, full first context) and, through the zero-feeding hook, runs of up to 2^38 zero bytes; oracle = executable model of the contract (accepted / specific error, refused calls change nothing incl. behaviour on a continuation, finalisation = size mismatch or the hash of the bytes fed since the last reset by reference model B and by a fresh undeclared generator, warning query) + a fresh generator in lock-step after every reset; non-trivial = a reset after elimination / last-hash activation / declaration, or a declaration placed mid-stream; distinct by case",
        tier.pick(400_000, 4_000_000),
        move || strategy(wt_seed(), tier),
        eval,
    )]
}
