//! C05 - text round trip and formatter contract.

use crate::api::{build_norm, build_raw, BHS, BHSs, CBHS, CBHSs};
use crate::engine::{generated, must, Stats, SubCheck, Tier};
use crate::gens::{self, RawH};
use oracle::fmt::format_hash;
use proptest::prelude::*;
use serde::{Deserialize, Serialize};
use ssdeep::{FuzzyHashData, FuzzyHashOperationError};

#[derive(Debug, Clone, Serialize, Deserialize)]
pub struct Case {
    pub h: RawH,
    /// which buffer lengths: all of 0..=MAX+8 when true, else a generated handful
    pub all_lengths: bool,
    pub lengths: Vec<u16>,
    pub sentinel: u8,
}

fn check_object<const S1: usize, const S2: usize, const N: bool>(
    obj: &FuzzyHashData<S1, S2, N>,
    content: &RawH,
    case: &Case,
    tyname: &str,
) -> Result<(), String>
where
    BHS<S1>: CBHS,
    BHS<S2>: CBHS,
    BHSs<S1, S2>: CBHSs,
{
    let exp = format_hash(content.log, &content.bh1, &content.bh2);
    let s1 = must("to_string", || obj.to_string())?;
    ensure_eq!(s1, exp, "{}::to_string()", tyname);
    let s2 = must("format!", || format!("{}", obj))?;
    ensure_eq!(s2, exp, "{} Display", tyname);
    let s3 = must("String::from", || String::from(*obj))?;
    ensure_eq!(s3, exp, "{} String::from", tyname);
    let l = must("len_in_str", || obj.len_in_str())?;
    ensure_eq!(l, exp.len(), "{}::len_in_str()", tyname);
    let max_ty = FuzzyHashData::<S1, S2, N>::MAX_LEN_IN_STR;
    ensure!(l <= max_ty, "{}: len_in_str {} exceeds the type's MAX_LEN_IN_STR {}", tyname, l, max_ty);
    ensure!(max_ty <= ssdeep::MAX_LEN_IN_STR, "{}: MAX_LEN_IN_STR {} exceeds the crate-wide maximum {}", tyname, max_ty, ssdeep::MAX_LEN_IN_STR);
    ensure_eq!(max_ty, 10 + 2 + S1 + S2, "{}: MAX_LEN_IN_STR is not the length of the longest text", tyname);
    // parse back
    let back = must("str::parse", || exp.parse::<FuzzyHashData<S1, S2, N>>())?;
    match back {
        Ok(b) => {
            ensure!(b == *obj, "{}: parse(to_string()) != original [{}]", tyname, exp);
            ensure!(must("full_eq", || b.full_eq(obj))?, "{}: parse(to_string()) is not full_eq to the original [{}]", tyname, exp);
        }
        Err(e) => return Err(format!("{}: own text {:?} rejected: {:?}", tyname, exp, e)),
    }
    // caller-buffer form
    let max = ssdeep::MAX_LEN_IN_STR + 8;
    let lens: Vec<usize> = if case.all_lengths {
        (0..=max).collect()
    } else {
        let mut v: Vec<usize> = case.lengths.iter().map(|&x| x as usize % (max + 1)).collect();
        v.extend([0, l.saturating_sub(1), l, l + 1, max]);
        v
    };
    for bl in lens {
        let mut buf = vec![case.sentinel; bl];
        let r = must("store_into_bytes", || obj.store_into_bytes(&mut buf))?;
        if bl < l {
            ensure_eq!(r, Err(FuzzyHashOperationError::StringizationOverflow), "{}: store_into_bytes into {} bytes (needs {})", tyname, bl, l);
            ensure!(buf.iter().all(|&b| b == case.sentinel), "{}: store_into_bytes refused a {}-byte buffer but wrote to it: {:?}", tyname, bl, buf);
        } else {
            ensure_eq!(r, Ok(l), "{}: store_into_bytes into {} bytes", tyname, bl);
            ensure_eq!(&buf[..l], exp.as_bytes(), "{}: store_into_bytes prefix", tyname);
            ensure!(buf[l..].iter().all(|&b| b == case.sentinel), "{}: store_into_bytes wrote past the text (buffer {} bytes, text {})", tyname, bl, l);
        }
    }
    Ok(())
}

pub fn eval(case: &Case, st: &mut Stats) -> Result<(), String> {
    let h = &case.h;
    let c = h.collapsed();
    if !h.bh1.is_empty() && !h.bh2.is_empty() {
        st.nontrivial(h.fp());
    }
    st.class(&format!("bs_digits={}", (3u64 << h.log).to_string().len()));
    if h.bh1.len() == 64 {
        st.class("bh1_at_capacity");
    }
    if case.all_lengths {
        st.class("all_buffer_lengths");
    }
    // the four plain types
    let lr = build_raw::<64, 64>(h)?;
    check_object(&lr, h, case, "LongRawFuzzyHash")?;
    let ln = build_norm::<64, 64>(&c)?;
    check_object(&ln, &c, case, "LongFuzzyHash")?;
    if h.bh2.len() <= 32 {
        let r = build_raw::<64, 32>(h)?;
        check_object(&r, h, case, "RawFuzzyHash")?;
        st.class("short_raw");
        if h.bh2.len() == 32 {
            st.class("bh2_at_short_capacity");
        }
    }
    if c.bh2.len() <= 32 {
        let n = build_norm::<64, 32>(&c)?;
        check_object(&n, &c, case, "FuzzyHash")?;
    }
    // text -> raw type -> text reproduces the text up to the comma; -> normalising type gives the collapsed text
    let text = h.text();
    for suffix in ["", ",", ",\"a,b:c\""] {
        let t = format!("{}{}", text, suffix);
        let p = must("parse", || t.parse::<ssdeep::LongRawFuzzyHash>())?.map_err(|e| format!("LongRawFuzzyHash rejects {:?}: {:?}", t, e))?;
        ensure_eq!(p.to_string(), text, "raw round trip of {:?}", t);
        let n = must("parse", || t.parse::<ssdeep::LongFuzzyHash>())?.map_err(|e| format!("LongFuzzyHash rejects {:?}: {:?}", t, e))?;
        ensure_eq!(n.to_string(), c.text(), "normalising round trip of {:?}", t);
        if h.bh2.len() <= 32 {
            let p = must("parse", || t.parse::<ssdeep::RawFuzzyHash>())?.map_err(|e| format!("RawFuzzyHash rejects {:?}: {:?}", t, e))?;
            ensure_eq!(p.to_string(), text, "raw (short) round trip of {:?}", t);
        }
        if c.bh2.len() <= 32 {
            let n = must("parse", || t.parse::<ssdeep::FuzzyHash>())?.map_err(|e| format!("FuzzyHash rejects {:?}: {:?}", t, e))?;
            ensure_eq!(n.to_string(), c.text(), "normalising (short) round trip of {:?}", t);
        }
    }
    Ok(())
}

#[derive(Debug, Clone, Serialize, Deserialize)]
pub struct TextCase {
    pub text: Vec<u8>,
}

/// every accepted text: text -> type -> text is the text up to its comma (raw types) or its
/// run-collapsed form (normalising types), whatever the raw lengths were
pub fn eval_text(case: &TextCase, st: &mut Stats) -> Result<(), String> {
    use oracle::parse::{parse_ref, Counting};
    let text = &case.text[..];
    let show = String::from_utf8_lossy(text).to_string();
    let mut any = false;
    macro_rules! one {
        ($ty:ty, $cap2:expr, $norm:expr) => {{
            let counting = if $norm { Counting::Collapsed } else { Counting::Raw };
            if let (Ok(p), _) = parse_ref(text, 64, $cap2, counting) {
                any = true;
                let exp = if $norm {
                    format_hash(p.log, &oracle::fmt::collapse(&p.bh1), &oracle::fmt::collapse(&p.bh2))
                } else {
                    format_hash(p.log, &p.bh1, &p.bh2)
                };
                let h = must("from_bytes", || <$ty>::from_bytes(text))?.map_err(|e| format!("{} rejects {:?}: {:?}", stringify!($ty), show, e))?;
                // the by-index form reports where the hash part ends: the text up to there is what round-trips
                let mut index = usize::MAX;
                let h2 = must("from_bytes_with_last_index", || <$ty>::from_bytes_with_last_index(text, &mut index))?
                    .map_err(|e| format!("{}::from_bytes_with_last_index rejects {:?}: {:?}", stringify!($ty), show, e))?;
                ensure!(h2.full_eq(&h), "{}: from_bytes_with_last_index gives another object than from_bytes for {:?}", stringify!($ty), show);
                ensure_eq!(index, p.end, "{}: reported end of the hash part of {:?}", stringify!($ty), show);
                if let Ok(s) = std::str::from_utf8(text) {
                    let h3 = must("str::parse", || s.parse::<$ty>())?.map_err(|e| format!("{} (FromStr) rejects {:?}: {:?}", stringify!($ty), show, e))?;
                    ensure!(h3.full_eq(&h), "{}: str::parse gives another object than from_bytes for {:?}", stringify!($ty), show);
                }
                let t = must("to_string", || h.to_string())?;
                ensure_eq!(t, exp, "{}: text -> object -> text of {:?}", stringify!($ty), show);
                ensure_eq!(must("len_in_str", || h.len_in_str())?, exp.len(), "{}: len_in_str() for {:?}", stringify!($ty), show);
                if !$norm {
                    ensure_eq!(t.as_bytes(), &text[..p.end], "{}: raw round trip must reproduce the text up to its comma", stringify!($ty));
                }
                let back = must("parse", || t.parse::<$ty>())?.map_err(|e| format!("{} rejects its own text {:?}: {:?}", stringify!($ty), t, e))?;
                ensure!(back == h && back.full_eq(&h), "{}: parse(to_string(x)) != x for {:?}", stringify!($ty), show);
                if p.bh1.len() > 64 || p.bh2.len() > $cap2 {
                    st.class("accepted_with_raw_beyond_capacity");
                }
            } else if let Ok(s) = std::str::from_utf8(text) {
                // a text outside the grammar must not be accepted by the trait form either (it could not round-trip)
                let a = must("from_bytes", || <$ty>::from_bytes(text))?.is_ok();
                let b = must("str::parse", || s.parse::<$ty>())?.is_ok();
                ensure!(!a && !b, "{} accepts {:?} (from_bytes: {}, str::parse: {}) although it is outside the grammar and cannot round-trip", stringify!($ty), show, a, b);
            }
        }};
    }
    one!(ssdeep::RawFuzzyHash, 32, false);
    one!(ssdeep::LongRawFuzzyHash, 64, false);
    one!(ssdeep::FuzzyHash, 32, true);
    one!(ssdeep::LongFuzzyHash, 64, true);
    if any {
        st.nontrivial(oracle::fingerprint(text));
        st.class("accepted_by_some_plain_type");
    } else {
        st.class("rejected_by_all_plain_types");
    }
    Ok(())
}

pub fn strategy(p_all: f64) -> impl Strategy<Value = Case> {
    (
        prop_oneof![2 => gens::raw_hash(64), 1 => gens::raw_hash(32)],
        prop::bool::weighted(p_all),
        proptest::collection::vec(any::<u16>(), 0..4),
        prop::sample::select(vec![0u8, 0xAA, 0xFF, b':', b'A']),
    )
        .prop_map(|(h, all_lengths, lengths, sentinel)| Case {
            h,
            all_lengths,
            lengths,
            sentinel,
        })
}

pub fn subchecks(tier: Tier) -> Vec<SubCheck> {
    vec![
      generated(
        "accepted_texts_roundtrip",
        "texts from the parser generators (valid block size, block hashes of up to ~400 raw characters around the capacities before / after collapsing, comma tails, mutations): for every plain type that the reference grammar says accepts the text, text -> object -> text is the text up to its comma (raw types) or its run-collapsed form (normalising types), len_in_str agrees, and the result parses back to a full_eq object; non-trivial = accepted by at least one type; distinct by text",
        tier.pick(1_200_000, 12_000_000),
        || prop_oneof![4 => gens::text_valid_bs(), 1 => gens::text_mix()].prop_map(|text| TextCase { text }),
        eval_text,
      ),
      generated(
        "format_roundtrip",
        "valid objects of the four plain types from run layouts (all 31 block sizes, lengths on the capacities); to_string = Display = String::from = reference formatter; len_in_str; MAX_LEN_IN_STR; parse back (== and full_eq); store_into_bytes with sentinel buffers (10% of cases: every length 0..=MAX+8); text -> type -> text with and without a comma tail; non-trivial = both block hashes non-empty; distinct by text",
        tier.pick(1_200_000, 12_000_000),
        || strategy(0.1),
        eval,
      ),
    ]
}
