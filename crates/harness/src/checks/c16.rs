//! C16 - equality, hashing and ordering are consistent and follow the documented order.

use crate::api::{build_norm, build_raw, fixed_hash, fixed_hash2};
use crate::engine::{generated, must, pick_index, Stats, SubCheck, Tier};
use crate::gens::{self, RawH};
use proptest::prelude::*;
use serde::{Deserialize, Serialize};
use ssdeep::{DualFuzzyHash, LongDualFuzzyHash};
use std::cmp::Ordering;

#[derive(Debug, Clone, Serialize, Deserialize)]
pub enum Vary {
    Same,
    TruncBh1 { at: u16 },
    TruncBh2 { at: u16 },
    AppendZerosBh1 { n: u8 },
    AppendZerosBh2 { n: u8 },
    ChangeBh1 { at: u16, sym: u8 },
    ChangeBh2 { at: u16, sym: u8 },
    Log { d: i8 },
    /// lengthen a run (keeps the normalised part, changes the raw form)
    Stretch { at: u16, n: u8, second: bool },
    Fresh(RawH),
}

#[derive(Debug, Clone, Serialize, Deserialize)]
pub struct Case {
    pub base: RawH,
    pub vary: Vec<Vec<Vary>>,
    pub short: bool,
}

fn apply(base: &RawH, vs: &[Vary], cap2: usize) -> RawH {
    let mut h = base.clone();
    for v in vs {
        match v {
            Vary::Same => {}
            Vary::TruncBh1 { at } => {
                let l = pick_index(*at, h.bh1.len() + 1);
                h.bh1.truncate(l);
            }
            Vary::TruncBh2 { at } => {
                let l = pick_index(*at, h.bh2.len() + 1);
                h.bh2.truncate(l);
            }
            Vary::AppendZerosBh1 { n } => {
                for _ in 0..*n {
                    if h.bh1.len() < 64 {
                        h.bh1.push(0);
                    }
                }
            }
            Vary::AppendZerosBh2 { n } => {
                for _ in 0..*n {
                    if h.bh2.len() < cap2 {
                        h.bh2.push(0);
                    }
                }
            }
            Vary::ChangeBh1 { at, sym } => {
                if !h.bh1.is_empty() {
                    let p = pick_index(*at, h.bh1.len());
                    h.bh1[p] = sym % 64;
                }
            }
            Vary::ChangeBh2 { at, sym } => {
                if !h.bh2.is_empty() {
                    let p = pick_index(*at, h.bh2.len());
                    h.bh2[p] = sym % 64;
                }
            }
            Vary::Log { d } => {
                h.log = (h.log as i16 + *d as i16).clamp(0, 30) as u8;
            }
            Vary::Stretch { at, n, second } => {
                let (bh, cap) = if *second { (&mut h.bh2, cap2) } else { (&mut h.bh1, 64) };
                if !bh.is_empty() {
                    let p = pick_index(*at, bh.len());
                    let s = bh[p];
                    for _ in 0..*n {
                        if bh.len() < cap {
                            bh.insert(p, s);
                        }
                    }
                }
            }
            Vary::Fresh(f) => {
                h = f.clone();
            }
        }
    }
    h.bh1.truncate(64);
    h.bh2.truncate(cap2);
    h
}

type Key = (u8, Vec<u8>, Vec<u8>);
fn key(h: &RawH) -> Key {
    (h.log, h.bh1.clone(), h.bh2.clone())
}

macro_rules! plain_laws {
    ($objs:expr, $contents:expr, $tyname:expr) => {{
        let objs = &$objs;
        let contents: &Vec<RawH> = &$contents;
        let n = objs.len();
        for i in 0..n {
            for j in 0..n {
                let (a, b) = (&objs[i], &objs[j]);
                let (ca, cb) = (&contents[i], &contents[j]);
                let text_eq = ca.text() == cb.text();
                let eq = must("==", || a == b)?;
                ensure_eq!(eq, text_eq, "{}: a == b vs equal texts [{} / {}]", $tyname, ca.text(), cb.text());
                ensure_eq!(must("!=", || a != b)?, !text_eq, "{}: a != b [{} / {}]", $tyname, ca.text(), cb.text());
                if eq {
                    ensure_eq!(fixed_hash(a), fixed_hash(b), "{}: equal objects, different Hash output [{}]", $tyname, ca.text());
                    ensure_eq!(fixed_hash2(a), fixed_hash2(b), "{}: equal objects, different Hash output (2nd hasher) [{}]", $tyname, ca.text());
                }
                let c = must("cmp", || a.cmp(b))?;
                let r = key(ca).cmp(&key(cb));
                ensure_eq!(c, r, "{}: cmp vs (block size, block hash 1, block hash 2) lexicographic order [{} / {}]", $tyname, ca.text(), cb.text());
                ensure_eq!(must("partial_cmp", || a.partial_cmp(b))?, Some(r), "{}: partial_cmp [{} / {}]", $tyname, ca.text(), cb.text());
                let ops = must("< <= > >=", || (a < b, a <= b, a > b, a >= b))?;
                ensure_eq!(ops, (r == Ordering::Less, r != Ordering::Greater, r == Ordering::Greater, r != Ordering::Less), "{}: operators < <= > >= vs the documented order [{} / {}]", $tyname, ca.text(), cb.text());
                ensure_eq!(c == Ordering::Equal, eq, "{}: cmp == Equal vs == [{} / {}]", $tyname, ca.text(), cb.text());
                ensure_eq!(must("cmp", || b.cmp(a))?, c.reverse(), "{}: antisymmetry [{} / {}]", $tyname, ca.text(), cb.text());
                ensure_eq!(must("cmp_by_block_size", || a.cmp_by_block_size(b))?, ca.log.cmp(&cb.log), "{}: cmp_by_block_size", $tyname);
            }
        }
        // sort differential
        let mut sorted = objs.clone();
        must("sort", || sorted.sort())?;
        let mut ks: Vec<Key> = contents.iter().map(key).collect();
        ks.sort();
        let got: Vec<Key> = sorted.iter().map(|o| (o.log_block_size(), o.block_hash_1().to_vec(), o.block_hash_2().to_vec())).collect();
        ensure_eq!(got, ks, "{}: sort() vs sort by the reference key", $tyname);
    }};
}

macro_rules! dual_laws {
    ($dual:ty, $s2:expr, $hs:expr, $st:expr) => {{
        let hs: &Vec<RawH> = &$hs;
        let mut ds: Vec<$dual> = Vec::new();
        for h in hs {
            let raw = build_raw::<64, { $s2 }>(h)?;
            ds.push(must("from_raw_form", || <$dual>::from_raw_form(&raw))?);
        }
        // the same values through init_from_raw_form on objects that held another member of the family
        let mut hs_ext: Vec<RawH> = hs.clone();
        for i in 0..hs.len() {
            let mut dest = ds[(i + hs.len() - 1) % hs.len()];
            let raw = build_raw::<64, { $s2 }>(&hs[i])?;
            must("init_from_raw_form", || dest.init_from_raw_form(&raw))?;
            ds.push(dest);
            hs_ext.push(hs[i].clone());
        }
        let hs = &hs_ext;
        let n = ds.len();
        for i in 0..n {
            for j in 0..n {
                let (a, b) = (&ds[i], &ds[j]);
                let (ha, hb) = (&hs[i], &hs[j]);
                let raw_eq = ha == hb;
                let eq = must("==", || a == b)?;
                ensure_eq!(eq, raw_eq, "{}: == vs equality of the raw hashes [{} / {}]", stringify!($dual), ha.text(), hb.text());
                if eq {
                    ensure_eq!(fixed_hash(a), fixed_hash(b), "{}: equal objects, different Hash output", stringify!($dual));
                }
                let c = must("cmp", || a.cmp(b))?;
                let c2 = must("cmp", || a.cmp(b))?;
                ensure_eq!(c, c2, "{}: cmp is not repeatable", stringify!($dual));
                ensure_eq!(must("cmp", || b.cmp(a))?, c.reverse(), "{}: antisymmetry [{} / {}]", stringify!($dual), ha.text(), hb.text());
                ensure_eq!(c == Ordering::Equal, eq, "{}: cmp == Equal vs == [{} / {}]", stringify!($dual), ha.text(), hb.text());
                // one order, however it is asked for: partial_cmp and the comparison operators are that same total order
                ensure_eq!(must("partial_cmp", || a.partial_cmp(b))?, Some(c), "{}: partial_cmp vs cmp [{} / {}]", stringify!($dual), ha.text(), hb.text());
                let ops = must("< <= > >=", || (a < b, a <= b, a > b, a >= b))?;
                ensure_eq!(ops, (c == Ordering::Less, c != Ordering::Greater, c == Ordering::Greater, c != Ordering::Less), "{}: operators < <= > >= vs cmp [{} / {}]", stringify!($dual), ha.text(), hb.text());
                let (na, nb) = (ha.collapsed(), hb.collapsed());
                if na != nb {
                    let r = key(&na).cmp(&key(&nb));
                    ensure_eq!(c, r, "{}: different normalised parts must order as those parts [{} / {}]", stringify!($dual), ha.text(), hb.text());
                    ensure_eq!(c, must("cmp", || a.as_normalized().cmp(b.as_normalized()))?, "{}: vs cmp of as_normalized()", stringify!($dual));
                } else if ha != hb {
                    $st.class("dual_pair_sharing_normalised_part");
                }
                // transitivity
                for k in 0..n {
                    let cc = &ds[k];
                    if must("cmp", || a.cmp(b))? != Ordering::Greater && must("cmp", || b.cmp(cc))? != Ordering::Greater {
                        ensure!(must("cmp", || a.cmp(cc))? != Ordering::Greater, "{}: order not transitive [{} / {} / {}]", stringify!($dual), ha.text(), hb.text(), hs[k].text());
                    }
                }
            }
        }
        let mut s1 = ds.clone();
        let mut s2 = ds.clone();
        s2.reverse();
        must("sort", || s1.sort())?;
        must("sort", || s2.sort())?;
        ensure!(s1 == s2, "{}: sort() result depends on the input order", stringify!($dual));
        ensure!(s1.windows(2).all(|w| w[0] <= w[1]), "{}: sort() result not ordered", stringify!($dual));
    }};
}

pub fn eval(case: &Case, st: &mut Stats) -> Result<(), String> {
    let cap2 = if case.short { 32 } else { 64 };
    let mut base = case.base.clone();
    base.bh2.truncate(cap2);
    let hs: Vec<RawH> = case.vary.iter().map(|v| apply(&base, v, cap2)).collect();
    // non-trivial: some pair is in a prefix / trailing-'A' relation, or shares the normalised part
    let mut nt = false;
    for i in 0..hs.len() {
        for j in 0..hs.len() {
            if i != j && hs[i].log == hs[j].log {
                let (a, b) = (&hs[i], &hs[j]);
                let prefix = |x: &Vec<u8>, y: &Vec<u8>| x.len() < y.len() && y[..x.len()] == x[..];
                if prefix(&a.bh1, &b.bh1) || (a.bh1 == b.bh1 && prefix(&a.bh2, &b.bh2)) {
                    nt = true;
                    st.class("pair_in_prefix_relation");
                    if (prefix(&a.bh1, &b.bh1) && b.bh1[a.bh1.len()..].iter().all(|&s| s == 0))
                        || (a.bh1 == b.bh1 && prefix(&a.bh2, &b.bh2) && b.bh2[a.bh2.len()..].iter().all(|&s| s == 0))
                    {
                        st.class("pair_differs_by_trailing_A_only");
                    }
                }
                if a != b && a.collapsed() == b.collapsed() {
                    nt = true;
                }
            }
        }
    }
    if nt {
        st.nontrivial(oracle::fingerprint(hs.iter().map(|h| h.text()).collect::<Vec<_>>().join("|").as_bytes()));
    }
    // plain types
    if case.short {
        let objs: Vec<ssdeep::RawFuzzyHash> = hs.iter().map(|h| build_raw::<64, 32>(h)).collect::<Result<_, _>>()?;
        plain_laws!(objs, hs, "RawFuzzyHash");
        let cs: Vec<RawH> = hs.iter().map(|h| h.collapsed()).collect();
        let objs: Vec<ssdeep::FuzzyHash> = cs.iter().map(|h| build_norm::<64, 32>(h)).collect::<Result<_, _>>()?;
        plain_laws!(objs, cs, "FuzzyHash");
        dual_laws!(DualFuzzyHash, 32, hs, st);
        st.class("short");
    } else {
        let mut objs: Vec<ssdeep::LongRawFuzzyHash> = hs.iter().map(|h| build_raw::<64, 64>(h)).collect::<Result<_, _>>()?;
        // the same values obtained by converting into destinations that held another member of the family
        let mut hs2 = hs.clone();
        for i in 0..hs.len() {
            let prev = objs[(i + hs.len() - 1) % hs.len()];
            if hs[i].bh2.len() <= 32 {
                let short = build_raw::<64, 32>(&hs[i])?;
                let mut dest = prev;
                must("into_mut_long_form", || short.into_mut_long_form(&mut dest))?;
                objs.push(dest);
                hs2.push(hs[i].clone());
            }
            let d = must("from_raw_form", || LongDualFuzzyHash::from_raw_form(&objs[i]))?;
            let mut dest = prev;
            must("into_mut_raw_form", || d.into_mut_raw_form(&mut dest))?;
            objs.push(dest);
            hs2.push(hs[i].clone());
        }
        plain_laws!(objs, hs2, "LongRawFuzzyHash (incl. objects converted into used destinations)");
        let cs: Vec<RawH> = hs.iter().map(|h| h.collapsed()).collect();
        let objs: Vec<ssdeep::LongFuzzyHash> = cs.iter().map(|h| build_norm::<64, 64>(h)).collect::<Result<_, _>>()?;
        plain_laws!(objs, cs, "LongFuzzyHash");
        dual_laws!(LongDualFuzzyHash, 64, hs, st);
        st.class("long");
    }
    Ok(())
}

fn vary() -> impl Strategy<Value = Vary> {
    prop_oneof![
        2 => Just(Vary::Same),
        2 => any::<u16>().prop_map(|at| Vary::TruncBh1 { at }),
        2 => any::<u16>().prop_map(|at| Vary::TruncBh2 { at }),
        2 => (1u8..4).prop_map(|n| Vary::AppendZerosBh1 { n }),
        2 => (1u8..4).prop_map(|n| Vary::AppendZerosBh2 { n }),
        2 => (any::<u16>(), 0u8..64).prop_map(|(at, sym)| Vary::ChangeBh1 { at, sym }),
        2 => (any::<u16>(), 0u8..64).prop_map(|(at, sym)| Vary::ChangeBh2 { at, sym }),
        1 => (-2i8..=2).prop_map(|d| Vary::Log { d }),
        3 => (any::<u16>(), 1u8..6, any::<bool>()).prop_map(|(at, n, second)| Vary::Stretch { at, n, second }),
        1 => gens::raw_hash(64).prop_map(Vary::Fresh),
    ]
}

pub fn strategy() -> impl Strategy<Value = Case> {
    (
        gens::raw_hash(64),
        proptest::collection::vec(proptest::collection::vec(vary(), 0..3), 3..=5),
        any::<bool>(),
    )
        .prop_map(|(base, vary, short)| Case { base, vary, short })
}

#[derive(Debug, Clone, Serialize, Deserialize)]
pub struct GenCase {
    pub data: Vec<u8>,
}

/// the same text obtained in two ways (generator / parser) must be equal, hash equally and order as equal,
/// and order consistently against a text that extends it
pub fn eval_generated(case: &GenCase, st: &mut Stats) -> Result<(), String> {
    let mut g = ssdeep::Generator::new();
    must("update", || {
        g.update(&case.data);
    })?;
    let a = must("finalize", || g.finalize())?.map_err(|e| format!("finalize failed: {:?}", e))?;
    let text = a.to_string();
    let b: ssdeep::RawFuzzyHash = must("parse", || text.parse())?.map_err(|e| format!("own text rejected: {:?}", e))?;
    ensure!(a == b, "generated hash != parsed {}", text);
    ensure_eq!(fixed_hash(&a), fixed_hash(&b), "Hash output of generated vs parsed {}", text);
    ensure_eq!(must("cmp", || a.cmp(&b))?, Ordering::Equal, "cmp of generated vs parsed {}", text);
    if a.block_hash_2_len() < 32 {
        let ext: ssdeep::RawFuzzyHash = must("parse", || format!("{}B", text).parse())?.map_err(|e| format!("extended text rejected: {:?}", e))?;
        ensure_eq!(must("cmp", || a.cmp(&ext))?, Ordering::Less, "generated {} must sort before its extension", text);
        let mut v = vec![ext, a, b];
        must("sort", || v.sort())?;
        ensure!(v[2] == ext, "sort() puts the extension of {} before it", text);
    }
    let l = must("finalize_without_truncation", || g.finalize_without_truncation())?.map_err(|e| format!("{:?}", e))?;
    let lt = l.to_string();
    let lb: ssdeep::LongRawFuzzyHash = must("parse", || lt.parse())?.map_err(|e| format!("own text rejected: {:?}", e))?;
    ensure!(l == lb && l.cmp(&lb) == Ordering::Equal, "long generated hash vs parsed {}: ==/cmp", lt);
    st.nontrivial(oracle::fingerprint(&case.data));
    Ok(())
}

pub fn subchecks(tier: Tier) -> Vec<SubCheck> {
    let gen_cases: Vec<GenCase> = {
        let mut v = vec![vec![], vec![0u8; 7], vec![0u8; 100], vec![0u8; 5000]];
        for n in [1usize, 6, 13, 200, 3000] {
            let mut d = vec![0u8; n];
            oracle::words::SplitMix(n as u64).fill(&mut d);
            v.push(d.clone());
            d.extend_from_slice(&[0u8; 7]);
            v.push(d);
        }
        v.into_iter().map(|data| GenCase { data }).collect()
    };
    vec![
      crate::engine::listed(
        "generated_vs_parsed",
        "hashes returned by the generator (empty input, zero runs, inputs ending in seven zero bytes so that the rolling hash is 0, short noise) against the objects parsed from their own text: ==, equal Hash output, cmp == Equal, sorts before its one-character extension",
        gen_cases,
        eval_generated,
      ),
      generated(
        "eq_hash_ord",
        "families of 3..5 close hashes from one base (prefixes, trailing 'A' = symbol 0, one changed symbol, neighbouring block size, stretched runs = same normalised part, or fresh), all four plain types and both dual types; == <=> equal texts, equal => equal Hash (two fixed hashers), cmp = reference lexicographic order, antisymmetry, cmp==Equal <=> ==, sort differential; duals: order of the normalised parts when they differ, total/deterministic/transitive otherwise; non-trivial = a pair in prefix / trailing-'A' relation or sharing the normalised part; distinct by the family's texts",
        tier.pick(800_000, 10_000_000),
        strategy,
        eval,
      ),
    ]
}
