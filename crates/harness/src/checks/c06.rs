//! C06 - normalisation collapses runs to three, idempotently, on every route.

use crate::api::{build_raw, content, BHS, BHSs, CBHS, CBHSs};
use crate::engine::{enumerated, generated, must, Stats, SubCheck, Tier};
use crate::gens::{self, RawH};
use oracle::fmt::{collapse, is_collapsed, runs};
use proptest::prelude::*;
use serde::{Deserialize, Serialize};
use serde_json::json;
use ssdeep::{DualFuzzyHash, FuzzyHashData, LongDualFuzzyHash};

#[derive(Debug, Clone, Serialize, Deserialize)]
pub struct Case {
    pub h: RawH,
}

/// all routes for the plain part (generic over the capacity of block hash 2)
fn routes_plain<const S2: usize>(h: &RawH) -> Result<Vec<(&'static str, FuzzyHashData<64, S2, true>)>, String>
where
    BHS<S2>: CBHS,
    BHSs<64, S2>: CBHSs,
{
    let raw: FuzzyHashData<64, S2, false> = build_raw::<64, S2>(h)?;
    let mut v: Vec<(&'static str, FuzzyHashData<64, S2, true>)> = Vec::new();
    v.push(("normalize()", must("normalize", || raw.normalize())?));
    let mut r2 = raw;
    must("normalize_in_place", || r2.normalize_in_place())?;
    ensure!(must("is_valid", || r2.is_valid())?, "raw.normalize_in_place() left an invalid object [{}]", h.text());
    ensure!(must("is_normalized", || r2.is_normalized())?, "is_normalized() false after normalize_in_place() [{}]", h.text());
    let cn = must("clone_normalized", || raw.clone_normalized())?;
    ensure!(must("full_eq", || cn.full_eq(&r2))?, "clone_normalized() differs from normalize_in_place() [{}]", h.text());
    // reinterpret the in-place result as the normalising type through its text and internals
    v.push((
        "normalize_in_place() -> new_from_internals_near_raw",
        must("new_from_internals_near_raw", || {
            FuzzyHashData::<64, S2, true>::new_from_internals_near_raw(r2.log_block_size(), r2.block_hash_1(), r2.block_hash_2())
        })?,
    ));
    v.push(("From<raw>", must("From", || FuzzyHashData::<64, S2, true>::from(raw))?));
    v.push(("from_raw_form", must("from_raw_form", || FuzzyHashData::<64, S2, true>::from_raw_form(&raw))?));
    let text = h.text();
    let parsed = must("str::parse", || text.parse::<FuzzyHashData<64, S2, true>>())?
        .map_err(|e| format!("normalising parser rejects {:?}: {:?}", text, e))?;
    v.push(("str::parse into the normalising type", parsed));
    // is_normalized of the raw object
    let isn = must("is_normalized", || raw.is_normalized())?;
    let exp = is_collapsed(&h.bh1) && is_collapsed(&h.bh2);
    ensure_eq!(isn, exp, "raw.is_normalized() [{}]", text);
    // raw type keeps the block size
    Ok(v)
}

fn judge<const S2: usize>(h: &RawH, routes: &[(&'static str, FuzzyHashData<64, S2, true>)]) -> Result<(), String>
where
    BHS<S2>: CBHS,
    BHSs<64, S2>: CBHSs,
{
    let exp = h.collapsed();
    for (name, n) in routes {
        ensure!(must("is_valid", || n.is_valid())?, "{}: result is not valid [{}]", name, h.text());
        ensure_eq!(content::<64, S2, true>(n), exp, "{}: result differs from the reference run-collapser [{}]", name, h.text());
        ensure!(must("is_normalized", || n.is_normalized())?, "{}: normalising type reports is_normalized() == false", name);
        ensure!(must("full_eq", || n.full_eq(&routes[0].1))?, "{}: not full_eq to normalize() [{}]", name, h.text());
        // idempotence
        let again = must("normalize", || n.normalize())?;
        ensure!(must("full_eq", || again.full_eq(n))?, "{}: normalising twice differs from once [{}]", name, h.text());
        let mut ip = *n;
        must("normalize_in_place", || ip.normalize_in_place())?;
        ensure!(must("full_eq", || ip.full_eq(n))?, "{}: normalize_in_place() on a normalised object changed it", name);
    }
    Ok(())
}

pub fn check_hash(h: &RawH, st: &mut Stats) -> Result<(), String> {
    let r = routes_plain::<64>(h)?;
    judge::<64>(h, &r)?;
    let exp = h.collapsed();
    // dual routes
    let raw = build_raw::<64, 64>(h)?;
    let d = must("LongDualFuzzyHash::from_raw_form", || LongDualFuzzyHash::from_raw_form(&raw))?;
    ensure_eq!(content(d.as_normalized()), exp, "LongDualFuzzyHash::from_raw_form().as_normalized() [{}]", h.text());
    ensure!(must("full_eq", || d.as_normalized().full_eq(&r[0].1))?, "dual as_normalized() not full_eq to normalize() [{}]", h.text());
    // ... and into a dual object that held another hash before
    let mut used = must("LongDualFuzzyHash::from_raw_form", || {
        LongDualFuzzyHash::from_raw_form(&ssdeep::LongRawFuzzyHash::new_from_internals_near_raw(
            7,
            &[3, 3, 3, 3, 3, 3, 3, 3, 9, 9, 9, 9, 9, 1, 2, 3, 4, 5, 6, 7, 8, 9, 10, 11, 12, 13, 14, 15, 16, 17, 18, 19, 20, 21, 22, 23, 24, 25, 26, 27, 28, 29, 30, 31, 32, 33, 34, 35, 36, 37, 38, 39, 40, 41, 42, 43, 44, 45, 46, 47, 48, 49, 50, 51],
            &[5, 5, 5, 5, 5, 5, 6, 6, 6, 6, 6, 6, 7, 7, 7, 7, 7, 7, 8, 8, 8, 8, 8, 8, 9, 9, 9, 9, 9, 9, 1, 1, 1, 1, 1, 1, 2, 2, 2, 2, 2, 2, 3, 3, 3, 3, 3, 3, 4, 4, 4, 4, 4, 4, 5, 5, 5, 5, 5, 5, 6, 6, 6, 6],
        ))
    })?;
    must("init_from_raw_form", || used.init_from_raw_form(&raw))?;
    ensure!(must("is_valid", || used.as_normalized().is_valid())?, "normalised part of a re-initialised dual hash is invalid [{}]", h.text());
    ensure!(must("full_eq", || used.as_normalized().full_eq(&r[0].1))?, "normalised part of a re-initialised dual hash is not full_eq to normalize() [{}]", h.text());
    let text = h.text();
    let dp = must("LongDualFuzzyHash::from_str", || text.parse::<LongDualFuzzyHash>())?
        .map_err(|e| format!("LongDualFuzzyHash rejects {:?}: {:?}", text, e))?;
    ensure_eq!(content(dp.as_normalized()), exp, "parsed dual as_normalized() [{}]", text);
    ensure!(must("full_eq", || dp.to_normalized().full_eq(&r[0].1))?, "parsed dual to_normalized() not full_eq [{}]", text);
    ensure_eq!(must("is_normalized", || d.is_normalized())?, is_collapsed(&h.bh1) && is_collapsed(&h.bh2), "dual.is_normalized() [{}]", text);
    if h.bh2.len() <= 32 {
        let r32 = routes_plain::<32>(h)?;
        judge::<32>(h, &r32)?;
        let raw = build_raw::<64, 32>(h)?;
        let d = must("DualFuzzyHash::from_raw_form", || DualFuzzyHash::from_raw_form(&raw))?;
        ensure_eq!(content(d.as_normalized()), exp, "DualFuzzyHash::from_raw_form().as_normalized() [{}]", text);
        let dp = must("DualFuzzyHash::from_str", || text.parse::<DualFuzzyHash>())?
            .map_err(|e| format!("DualFuzzyHash rejects {:?}: {:?}", text, e))?;
        ensure_eq!(content(dp.as_normalized()), exp, "parsed short dual as_normalized() [{}]", text);
        st.class("short_too");
    }
    Ok(())
}

pub fn eval(case: &Case, st: &mut Stats) -> Result<(), String> {
    let h = &case.h;
    let rs: Vec<(u8, usize)> = runs(&h.bh1).into_iter().chain(runs(&h.bh2)).collect();
    let longest = rs.iter().map(|r| r.1).max().unwrap_or(0);
    let long_runs = rs.iter().filter(|r| r.1 > 3).count();
    if longest > 3 {
        st.nontrivial(h.fp());
    }
    st.class(match long_runs {
        0 => "long_runs=0",
        1 => "long_runs=1",
        2..=4 => "long_runs=2-4",
        _ => "long_runs=5+",
    });
    st.class(match longest {
        0..=3 => "longest<=3",
        4 => "longest=4",
        5..=8 => "longest=5-8",
        9..=63 => "longest=9-63",
        _ => "longest=64",
    });
    let touches = |b: &Vec<u8>| {
        let r = runs(b);
        r.first().map(|x| x.1 > 3).unwrap_or(false) || r.last().map(|x| x.1 > 3).unwrap_or(false)
    };
    if touches(&h.bh1) || touches(&h.bh2) {
        st.class("run_touches_an_end");
    }
    check_hash(h, st)
}

fn small_scope(maxlen: u32) -> SubCheck {
    let n: u64 = (1u64 << (maxlen + 1)) - 1; // strings over {A,B} up to maxlen
    enumerated(
        "exhaustive_binary_strings",
        "every string over a 2-symbol alphabet up to the length bound, once as block hash 1 and once as block hash 2; all routes; non-trivial = contains a run longer than 3; distinct by construction",
        n * 2,
        true,
        move |i| json!({"string_index": i % n, "in_block_hash": 1 + i / n}),
        move |lo, hi, st| {
            for i in lo..hi {
                let mut idx = i % n;
                let mut len = 0u32;
                let mut count = 1u64;
                while idx >= count {
                    idx -= count;
                    len += 1;
                    count *= 2;
                }
                let s: Vec<u8> = (0..len).rev().map(|k| if (idx >> k) & 1 == 1 { 33u8 } else { 7u8 }).collect();
                let h = if i / n == 0 {
                    RawH { log: (i % 31) as u8, bh1: s.clone(), bh2: vec![] }
                } else {
                    RawH { log: (i % 31) as u8, bh1: vec![1, 2, 3], bh2: s.clone() }
                };
                check_hash(&h, st).map_err(|m| (i, m))?;
                st.count(1);
                if collapse(&s) != s {
                    st.nontrivial_distinct(1);
                }
            }
            Ok(())
        },
    )
}

#[derive(Debug, Clone, Serialize, Deserialize)]
pub struct TextCase {
    pub log: u8,
    pub bh1: Vec<u8>,
    pub bh2: Vec<u8>,
    pub tail: Vec<u8>,
}

/// Route "parsing text directly into a normalising type" for texts that no raw object can hold:
/// raw block hashes of up to ~400 characters whose run-collapsed form may or may not fit.
pub fn eval_text(case: &TextCase, st: &mut Stats) -> Result<(), String> {
    let sym = |v: &Vec<u8>| -> Vec<u8> { v.iter().map(|&c| oracle::fmt::b64_index(c).unwrap()).collect() };
    let (r1, r2) = (sym(&case.bh1), sym(&case.bh2));
    let (c1, c2) = (collapse(&r1), collapse(&r2));
    let mut text = (3u64 << case.log).to_string().into_bytes();
    text.push(b':');
    text.extend(&case.bh1);
    text.push(b':');
    text.extend(&case.bh2);
    text.extend(&case.tail);
    let exp = RawH { log: case.log, bh1: c1.clone(), bh2: c2.clone() };
    let show = String::from_utf8_lossy(&text).to_string();
    for (cap2, long) in [(32usize, false), (64usize, true)] {
        let fits = c1.len() <= 64 && c2.len() <= cap2;
        let got: Result<RawH, String> = if long {
            match must("LongFuzzyHash::from_bytes", || ssdeep::LongFuzzyHash::from_bytes(&text))? {
                Ok(h) => {
                    ensure!(must("is_valid", || h.is_valid())?, "parsing {:?} into LongFuzzyHash gives an object that fails is_valid(): {:?}", show, h);
                    Ok(content(&h))
                }
                Err(e) => Err(format!("{:?}", e)),
            }
        } else {
            match must("FuzzyHash::from_bytes", || ssdeep::FuzzyHash::from_bytes(&text))? {
                Ok(h) => {
                    ensure!(must("is_valid", || h.is_valid())?, "parsing {:?} into FuzzyHash gives an object that fails is_valid(): {:?}", show, h);
                    Ok(content(&h))
                }
                Err(e) => Err(format!("{:?}", e)),
            }
        };
        match (fits, got) {
            (true, Ok(g)) => ensure_eq!(g, exp, "parsing {:?} into the {} normalising type", show, if long { "long" } else { "short" }),
            (true, Err(e)) => return Err(format!("{} normalising type rejects {:?} ({}) although its run-collapsed block hashes have {} / {} characters", if long { "long" } else { "short" }, show, e, c1.len(), c2.len())),
            (false, Ok(g)) => return Err(format!("{} normalising type accepts {:?} as {} although the run-collapsed block hashes have {} / {} characters", if long { "long" } else { "short" }, show, g.text(), c1.len(), c2.len())),
            (false, Err(_)) => {}
        }
        if fits && (r1.len() > 64 || r2.len() > cap2) {
            st.class("raw_too_long_but_collapsed_fits");
            if c1.len() == 64 || c2.len() == cap2 {
                st.class("collapsed_exactly_at_capacity");
            }
        }
    }
    if r1.len() > 64 || r2.len() > 32 {
        st.nontrivial(oracle::fingerprint(&text));
    }
    if r1.len() > 140 || r2.len() > 140 {
        st.class("raw_block_hash>140");
    }
    Ok(())
}

pub fn subchecks(tier: Tier) -> Vec<SubCheck> {
    vec![
        small_scope(tier.pick(15, 19)),
        generated(
            "parse_texts_beyond_raw_capacity",
            "texts whose raw block hashes have up to ~400 characters (lengths aimed at the capacities before and after collapsing) parsed directly into FuzzyHash / LongFuzzyHash: accepted exactly when the run-collapsed block hashes fit, and then equal to the reference run-collapser; non-trivial = a raw block hash longer than a capacity; distinct by text",
            tier.pick(1_200_000, 12_000_000),
            || (0u8..31, gens::block_hash_text(), gens::block_hash_text(), gens::text_tail()).prop_map(|(log, bh1, bh2, tail)| TextCase { log, bh1, bh2, tail }),
            eval_text,
        ),
        generated(
            "routes_agree",
            "raw hashes as run layouts (both capacities): normalize(), normalize_in_place(), clone_normalized(), From, from_raw_form, parsing the raw text into the normalising type, dual from object / from text: all valid, equal to the reference run-collapser and full_eq to each other; idempotence; is_normalized; non-trivial = at least one run longer than 3; distinct by text",
            tier.pick(1_200_000, 12_000_000),
            || prop_oneof![2 => gens::raw_hash(64), 1 => gens::raw_hash(32)].prop_map(|h| Case { h }),
            eval,
        ),
    ]
}
