//! C09 - the common-substring pre-filter is exact (reference: naive 7-gram search).
#![allow(deprecated)]

use crate::engine::{enumerated, generated, must, Stats, SubCheck, Tier};
use crate::gens;
use oracle::cmp::has_common_7gram;
use oracle::words::SplitMix;
use proptest::prelude::*;
use serde::{Deserialize, Serialize};
use serde_json::json;
use ssdeep::internal_comparison::{BlockHashPositionArray, BlockHashPositionArrayImpl};
use ssdeep::{FuzzyHashCompareTarget, LongFuzzyHash};

#[derive(Debug, Clone, Serialize, Deserialize)]
pub struct Case {
    pub a: Vec<u8>,
    pub b: Vec<u8>,
}

pub fn hcs_pa(a: &[u8], b: &[u8]) -> Result<bool, String> {
    let mut pa = BlockHashPositionArray::new();
    // (the array held `b` before: a re-initialised object must behave like a fresh one)
    must("BlockHashPositionArray::init_from", || pa.init_from(b))?;
    must("BlockHashPositionArray::init_from", || pa.init_from(a))?;
    must("has_common_substring", || pa.has_common_substring(b))
}

pub fn check_pair(a: &[u8], b: &[u8], st: &mut Stats, deep: bool) -> Result<(), String> {
    let exp = has_common_7gram(a, b);
    let got = hcs_pa(a, b)?;
    ensure_eq!(got, exp, "has_common_substring(a={:?}, b={:?})", a, b);
    let rev = hcs_pa(b, a)?;
    ensure_eq!(rev, exp, "has_common_substring reversed (a={:?}, b={:?})", a, b);
    if deep && oracle::fmt::is_collapsed(a) && oracle::fmt::is_collapsed(b) {
        // through a comparison target and the candidate test (block hash 1 only: bh2 empty)
        let ha = must("new_from_internals_near_raw", || LongFuzzyHash::new_from_internals_near_raw(5, a, &[]))?;
        let hb = must("new_from_internals_near_raw", || LongFuzzyHash::new_from_internals_near_raw(5, b, &[]))?;
        // a target that held "empty block hash 1, b as block hash 2" before
        let hprev = must("new_from_internals_near_raw", || LongFuzzyHash::new_from_internals_near_raw(5, &[], b))?;
        let mut t = must("FuzzyHashCompareTarget::from", || FuzzyHashCompareTarget::from(&hprev))?;
        must("init_from", || t.init_from(&ha))?;
        let g1 = must("block_hash_1().has_common_substring", || t.block_hash_1().has_common_substring(b))?;
        ensure_eq!(g1, exp, "target.block_hash_1().has_common_substring(a={:?}, b={:?})", a, b);
        let c = must("is_comparison_candidate", || t.is_comparison_candidate(&hb))?;
        ensure_eq!(c, exp, "is_comparison_candidate (equal block sizes, bh2 empty) (a={:?}, b={:?})", a, b);
        // crossed: a as block hash 2 of the smaller block size
        let ha2 = must("new_from_internals_near_raw", || LongFuzzyHash::new_from_internals_near_raw(4, &[], a))?;
        let mut t2 = must("FuzzyHashCompareTarget::from", || FuzzyHashCompareTarget::from(&hprev))?;
        must("init_from", || t2.init_from(&ha2))?;
        let c2 = must("is_comparison_candidate", || t2.is_comparison_candidate(&hb))?;
        ensure_eq!(c2, exp, "is_comparison_candidate (a.bh2 vs b.bh1, near-lt) (a={:?}, b={:?})", a, b);
        let c3 = must("is_comparison_candidate", || FuzzyHashCompareTarget::from(&hb).is_comparison_candidate(&ha2))?;
        ensure_eq!(c3, exp, "is_comparison_candidate (near-gt) (a={:?}, b={:?})", a, b);
        st.class("via_target");
    }
    st.class(if exp { "answer=true" } else { "answer=false" });
    if a.len() >= 7 && b.len() >= 7 {
        st.nontrivial(oracle::fingerprint(&[a, &[0xff][..], b].concat()));
    }
    Ok(())
}

/// planted case number `i`: decode into (la, lb, offset in a, offset in b, fill mode)
fn planted(i: u64, step: u64) -> (Vec<u8>, Vec<u8>, &'static str) {
    // enumerate (la, lb) in 7..=64 with the given step, all offsets
    let lens: Vec<usize> = (7..=64usize).filter(|l| (*l as u64 - 7) % step == 0 || *l == 64 || *l == 63).collect();
    let mut idx = i;
    let modes = 4u64;
    let mode = idx % modes;
    idx /= modes;
    // find (la, lb, oa, ob)
    let mut la = 7;
    let mut lb = 7;
    let mut oa = 0;
    let mut ob = 0;
    'outer: for &x in &lens {
        for &y in &lens {
            let cnt = ((x - 6) * (y - 6)) as u64;
            if idx < cnt {
                la = x;
                lb = y;
                oa = (idx / (y as u64 - 6)) as usize;
                ob = (idx % (y as u64 - 6)) as usize;
                break 'outer;
            }
            idx -= cnt;
        }
    }
    let mut r = SplitMix(i.wrapping_mul(0x9E37_79B9_7F4A_7C15) ^ 0xC09);
    let gram: Vec<u8> = match mode {
        // distinct symbols / low entropy planted grams
        0 | 1 => (0..7).map(|k| 32 + ((r.next() % 4) as u8) * 8 + k as u8 % 8).map(|s| s % 64).collect(),
        _ => (0..7).map(|_| (r.next() % 3) as u8).collect(),
    };
    let (mut a, mut b): (Vec<u8>, Vec<u8>);
    let label;
    match mode {
        0 => {
            // disjoint alphabets: a from 0..16, b from 16..32, gram from 32.. : the planted one is the only match
            a = (0..la).map(|_| (r.next() % 16) as u8).collect();
            b = (0..lb).map(|_| 16 + (r.next() % 16) as u8).collect();
            label = "planted_disjoint";
        }
        1 => {
            // near miss: six shared + one different
            a = (0..la).map(|_| (r.next() % 16) as u8).collect();
            b = (0..lb).map(|_| 16 + (r.next() % 16) as u8).collect();
            label = "near_miss";
        }
        2 => {
            // shared small alphabet: oracle decides
            a = (0..la).map(|_| (r.next() % 3) as u8).collect();
            b = (0..lb).map(|_| (r.next() % 3) as u8).collect();
            label = "planted_shared_alphabet";
        }
        _ => {
            a = (0..la).map(|_| (r.next() % 2) as u8 * 9).collect();
            b = (0..lb).map(|_| (r.next() % 4) as u8 * 3).collect();
            label = "low_entropy";
        }
    }
    a[oa..oa + 7].copy_from_slice(&gram);
    b[ob..ob + 7].copy_from_slice(&gram);
    if mode == 1 {
        let k = (r.next() % 7) as usize;
        b[ob + k] = 63 - (k as u8); // a symbol that occurs nowhere else
    }
    (a, b, label)
}

fn planted_total(step: u64) -> u64 {
    let lens: Vec<u64> = (7..=64u64).filter(|l| (*l - 7) % step == 0 || *l == 64 || *l == 63).collect();
    let mut t = 0;
    for &x in &lens {
        for &y in &lens {
            t += (x - 6) * (y - 6);
        }
    }
    t * 4
}

fn systematic(step: u64) -> SubCheck {
    enumerated(
        "planted_every_offset",
        "for (la, lb) in [7,64]^2 (stepped in quick, every pair in thorough) a shared 7-gram planted at every offset pair, 4 fill modes (disjoint alphabets, near miss with one differing symbol, shared 3-symbol alphabet, low entropy); judged by the naive search; non-trivial = both >= 7 long; distinct by construction (index)",
        planted_total(step),
        false,
        move |i| {
            let (a, b, l) = planted(i, step);
            json!({"a": a, "b": b, "mode": l})
        },
        move |lo, hi, st| {
            for i in lo..hi {
                let (a, b, label) = planted(i, step);
                let exp = has_common_7gram(&a, &b);
                let got = hcs_pa(&a, &b).map_err(|m| (i, m))?;
                if got != exp {
                    return Err((i, format!("has_common_substring(a={:?}, b={:?}) = {} but naive search says {}", a, b, got, exp)));
                }
                let rev = hcs_pa(&b, &a).map_err(|m| (i, m))?;
                if rev != exp {
                    return Err((i, format!("has_common_substring reversed (a={:?}, b={:?}) = {} but naive search says {}", a, b, rev, exp)));
                }
                st.count(1);
                st.nontrivial_distinct(1);
                st.class(label);
                st.class(if exp { "answer=true" } else { "answer=false" });
            }
            Ok(())
        },
    )
}

pub fn strategy() -> impl Strategy<Value = Case> {
    prop_oneof![
        2 => (gens::block_hash(64), gens::block_hash(64)).prop_map(|(a, b)| Case { a, b }),
        3 => (gens::block_hash(64), proptest::collection::vec(gens::edit(), 0..6)).prop_map(|(a, e)| {
            let b = gens::apply_edits(&a, &e, 64);
            Case { a, b }
        }),
        // normalised pairs sharing a window (so that the target route is exercised)
        3 => (gens::block_hash_norm(64), gens::block_hash_norm(64), any::<u16>(), any::<u16>(), 5usize..=8).prop_map(|(a, mut b, i, j, n)| {
            if a.len() >= n {
                let s = crate::engine::pick_index(i, a.len() - n + 1);
                let piece = a[s..s + n].to_vec();
                let p = crate::engine::pick_index(j, b.len() + 1);
                for (k, c) in piece.into_iter().enumerate() {
                    if p + k < b.len() { b[p + k] = c; } else if b.len() < 64 { b.push(c); }
                }
                b = oracle::fmt::collapse(&b);
            }
            Case { a, b }
        }),
        1 => (0u8..3, 0usize..=64, 0usize..=64).prop_map(|(s, n, m)| Case { a: vec![s; n], b: vec![s; m] }),
        1 => (proptest::collection::vec(0u8..2, 0..=64), proptest::collection::vec(0u8..2, 0..=64)).prop_map(|(a, b)| Case { a, b }),
        1 => (proptest::collection::vec(0u8..64, 0..=8), proptest::collection::vec(0u8..64, 0..=64)).prop_map(|(a, b)| Case { a, b }),
    ]
}

pub fn eval(case: &Case, st: &mut Stats) -> Result<(), String> {
    st.class(&format!("lb_mod7={}", case.b.len() % 7));
    check_pair(&case.a, &case.b, st, true)
}

pub fn subchecks(tier: Tier) -> Vec<SubCheck> {
    vec![
        systematic(tier.pick(3, 1)),
        generated(
            "generated_pairs",
            "pairs of strings <= 64: independent, derived by edits, normalised pairs with a transplanted window of 5..8 symbols (also judged through FuzzyHashCompareTarget and is_comparison_candidate in the eq / near-lt / near-gt relations), constant and binary strings, strings shorter than 7; non-trivial = both >= 7 long; distinct by (a,b)",
            tier.pick(4_000_000, 40_000_000),
            strategy,
            eval,
        ),
    ]
}
