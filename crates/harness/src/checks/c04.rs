//! C04 - parsing is total and accepts exactly the fuzzy-hash grammar (reference: R-parse).

use crate::engine::{generated, lib, Stats, SubCheck, Tier};
use crate::gens;
use oracle::fmt::collapse;
use oracle::parse::{parse_ref, Counting, Origin, Parsed};
use proptest::prelude::*;
use serde::{Deserialize, Serialize};
use ssdeep::{
    DualFuzzyHash, FuzzyHash, LongDualFuzzyHash, LongFuzzyHash, LongRawFuzzyHash, ParseErrorInfo, ParseErrorOrigin,
    RawFuzzyHash,
};

#[derive(Debug, Clone, Serialize, Deserialize)]
pub struct Case {
    pub text: Vec<u8>,
    /// preset value of the caller's index
    pub idx: usize,
}

fn origin_of(o: ParseErrorOrigin) -> Origin {
    match o {
        ParseErrorOrigin::BlockSize => Origin::BlockSize,
        ParseErrorOrigin::BlockHash1 => Origin::BlockHash1,
        ParseErrorOrigin::BlockHash2 => Origin::BlockHash2,
    }
}

/// what one parser entry point did
#[derive(Debug, Clone, PartialEq)]
pub enum Seen {
    /// (log, block hash 1, block hash 2 [as stored], raw form when the type keeps one, is_valid, index after)
    Ok {
        log: u8,
        bh1: Vec<u8>,
        bh2: Vec<u8>,
        raw: Option<(Vec<u8>, Vec<u8>)>,
        valid: bool,
        index: usize,
    },
    Err {
        origin: Origin,
        index: usize,
    },
}

macro_rules! observe_plain {
    ($ty:ty, $text:expr, $idx:expr) => {{
        let text: &[u8] = $text;
        let mut v: Vec<(&'static str, Result<Seen, String>)> = Vec::new();
        let conv = |r: Result<$ty, ssdeep::ParseError>, index: usize| -> Result<Seen, String> {
            match r {
                Ok(h) => {
                    let valid = lib(|| h.is_valid()).map_err(|p| format!("is_valid() panicked: {}", p))?;
                    Ok(Seen::Ok {
                        log: h.log_block_size(),
                        bh1: h.block_hash_1().to_vec(),
                        bh2: h.block_hash_2().to_vec(),
                        raw: None,
                        valid,
                        index,
                    })
                }
                Err(e) => Ok(Seen::Err {
                    origin: origin_of(e.origin()),
                    index,
                }),
            }
        };
        // from_bytes: no index; report the reference end on success so that one comparison fits all
        v.push((
            "from_bytes",
            lib(|| <$ty>::from_bytes(text))
                .map_err(|p| format!("from_bytes panicked: {}", p))
                .and_then(|r| conv(r, usize::MAX - 1)),
        ));
        for preset in [0usize, usize::MAX, $idx] {
            let mut index = preset;
            let r = lib(|| <$ty>::from_bytes_with_last_index(text, &mut index))
                .map_err(|p| format!("from_bytes_with_last_index panicked: {}", p));
            let seen = r.and_then(|r| {
                let is_err = r.is_err();
                let s = conv(r, index)?;
                if is_err && index != preset {
                    return Err(format!("index changed from {} to {} although parsing failed", preset, index));
                }
                Ok(s)
            });
            v.push(("from_bytes_with_last_index", seen));
        }
        if let Ok(s) = std::str::from_utf8(text) {
            v.push((
                "str::parse",
                lib(|| s.parse::<$ty>())
                    .map_err(|p| format!("str::parse panicked: {}", p))
                    .and_then(|r| conv(r, usize::MAX - 1)),
            ));
        }
        v
    }};
}

macro_rules! observe_dual {
    ($ty:ty, $text:expr, $idx:expr) => {{
        let text: &[u8] = $text;
        let mut v: Vec<(&'static str, Result<Seen, String>)> = Vec::new();
        let conv = |r: Result<$ty, ssdeep::ParseError>, index: usize| -> Result<Seen, String> {
            match r {
                Ok(h) => {
                    let valid = lib(|| h.is_valid()).map_err(|p| format!("is_valid() panicked: {}", p))?;
                    let n = h.as_normalized();
                    let raw = lib(|| h.to_raw_form()).map_err(|p| format!("to_raw_form() of a parsed dual hash panicked: {}", p))?;
                    Ok(Seen::Ok {
                        log: h.log_block_size(),
                        bh1: n.block_hash_1().to_vec(),
                        bh2: n.block_hash_2().to_vec(),
                        raw: Some((raw.block_hash_1().to_vec(), raw.block_hash_2().to_vec())),
                        valid,
                        index,
                    })
                }
                Err(e) => Ok(Seen::Err {
                    origin: origin_of(e.origin()),
                    index,
                }),
            }
        };
        v.push((
            "from_bytes",
            lib(|| <$ty>::from_bytes(text))
                .map_err(|p| format!("from_bytes panicked: {}", p))
                .and_then(|r| conv(r, usize::MAX - 1)),
        ));
        for preset in [0usize, usize::MAX, $idx] {
            let mut index = preset;
            let r = lib(|| <$ty>::from_bytes_with_last_index(text, &mut index))
                .map_err(|p| format!("from_bytes_with_last_index panicked: {}", p));
            let seen = r.and_then(|r| {
                let is_err = r.is_err();
                let s = conv(r, index)?;
                if is_err && index != preset {
                    return Err(format!("index changed from {} to {} although parsing failed", preset, index));
                }
                Ok(s)
            });
            v.push(("from_bytes_with_last_index", seen));
        }
        if let Ok(s) = std::str::from_utf8(text) {
            v.push((
                "str::parse",
                lib(|| s.parse::<$ty>())
                    .map_err(|p| format!("str::parse panicked: {}", p))
                    .and_then(|r| conv(r, usize::MAX - 1)),
            ));
        }
        v
    }};
}

#[derive(Debug, Clone, Copy, PartialEq, Eq)]
pub enum Kind {
    Raw,
    Norm,
    Dual,
}

pub const TYPES: [(&str, Kind, usize); 6] = [
    ("RawFuzzyHash", Kind::Raw, 32),
    ("LongRawFuzzyHash", Kind::Raw, 64),
    ("FuzzyHash", Kind::Norm, 32),
    ("LongFuzzyHash", Kind::Norm, 64),
    ("DualFuzzyHash", Kind::Dual, 32),
    ("LongDualFuzzyHash", Kind::Dual, 64),
];

pub fn observe(ti: usize, text: &[u8], idx: usize) -> Vec<(&'static str, Result<Seen, String>)> {
    match ti {
        0 => observe_plain!(RawFuzzyHash, text, idx),
        1 => observe_plain!(LongRawFuzzyHash, text, idx),
        2 => observe_plain!(FuzzyHash, text, idx),
        3 => observe_plain!(LongFuzzyHash, text, idx),
        4 => observe_dual!(DualFuzzyHash, text, idx),
        _ => observe_dual!(LongDualFuzzyHash, text, idx),
    }
}

/// the reference verdict for one type under the default (non-strict) parser
pub fn expected(kind: Kind, cap2: usize, text: &[u8]) -> Result<Parsed, Origin> {
    let counting = match kind {
        Kind::Norm => Counting::Collapsed,
        Kind::Raw | Kind::Dual => Counting::Raw,
    };
    parse_ref(text, 64, cap2, counting).0
}

pub fn judge(tyname: &str, kind: Kind, entry: &str, exp: &Result<Parsed, Origin>, seen: &Seen) -> Result<(), String> {
    match (exp, seen) {
        (Ok(p), Seen::Ok { log, bh1, bh2, raw, valid, index }) => {
            ensure!(*valid, "{}::{} accepted the text but the object fails is_valid()", tyname, entry);
            ensure_eq!(*log, p.log, "{}::{} block size (log)", tyname, entry);
            let (e1, e2) = match kind {
                Kind::Raw => (p.bh1.clone(), p.bh2.clone()),
                Kind::Norm | Kind::Dual => (collapse(&p.bh1), collapse(&p.bh2)),
            };
            ensure_eq!(*bh1, e1, "{}::{} block hash 1", tyname, entry);
            ensure_eq!(*bh2, e2, "{}::{} block hash 2", tyname, entry);
            if let Some((r1, r2)) = raw {
                ensure_eq!(*r1, p.bh1, "{}::{} raw form, block hash 1", tyname, entry);
                ensure_eq!(*r2, p.bh2, "{}::{} raw form, block hash 2", tyname, entry);
            }
            if *index != usize::MAX - 1 {
                ensure_eq!(*index, p.end, "{}::{} end index", tyname, entry);
            }
            Ok(())
        }
        (Err(o), Seen::Err { origin, .. }) => {
            ensure_eq!(*origin, *o, "{}::{} error origin", tyname, entry);
            Ok(())
        }
        (Ok(p), Seen::Err { origin, .. }) => Err(format!(
            "{}::{} rejected (origin {:?}) a text of the grammar (log {}, lengths {}/{})",
            tyname,
            entry,
            origin,
            p.log,
            p.bh1.len(),
            p.bh2.len()
        )),
        (Err(o), Seen::Ok { bh1, bh2, .. }) => Err(format!(
            "{}::{} accepted a text outside the grammar (reference: error in {:?}); stored lengths {}/{}",
            tyname,
            entry,
            o,
            bh1.len(),
            bh2.len()
        )),
    }
}

pub fn eval(case: &Case, st: &mut Stats) -> Result<(), String> {
    let text = &case.text[..];
    // classification on the unrestricted grammar
    let (unres, info) = parse_ref(text, usize::MAX, usize::MAX, Counting::Raw);
    let near = |l: Option<usize>| l.map(|l| (29..=35).contains(&l) || (61..=67).contains(&l)).unwrap_or(false);
    let fits_only_collapsed = |raw: Option<usize>, col: Option<usize>| match (raw, col) {
        (Some(r), Some(c)) => (r > 32 && c <= 32) || (r > 64 && c <= 64),
        _ => false,
    };
    let nt = match &unres {
        Ok(_) => {
            near(info.bh1_raw)
                || near(info.bh2_raw)
                || near(info.bh1_col)
                || near(info.bh2_col)
                || fits_only_collapsed(info.bh1_raw, info.bh1_col)
                || fits_only_collapsed(info.bh2_raw, info.bh2_col)
        }
        Err(o) => *o != Origin::BlockSize,
    };
    if nt {
        st.nontrivial(oracle::fingerprint(text));
    }
    st.class(match &unres {
        Ok(_) => "grammar=ok",
        Err(Origin::BlockSize) => "first_defect=block_size",
        Err(Origin::BlockHash1) => "first_defect=block_hash_1",
        Err(Origin::BlockHash2) => "first_defect=block_hash_2",
    });
    if fits_only_collapsed(info.bh1_raw, info.bh1_col) || fits_only_collapsed(info.bh2_raw, info.bh2_col) {
        st.class("raw>cap>=collapsed");
    }
    if near(info.bh1_raw) || near(info.bh2_raw) {
        st.class("length_near_capacity");
    }
    if unres.as_ref().map(|p| p.end < text.len()).unwrap_or(false) {
        st.class("has_comma_tail");
    }
    let mut accepted_by_any = false;
    for (ti, (tyname, kind, cap2)) in TYPES.iter().enumerate() {
        let exp = expected(*kind, *cap2, text);
        if exp.is_ok() {
            accepted_by_any = true;
            st.class(&format!("accept:{}", tyname));
        }
        for (entry, seen) in observe(ti, text, case.idx) {
            let seen = seen.map_err(|m| format!("{}::{}: {}", tyname, entry, m))?;
            judge(tyname, *kind, entry, &exp, &seen)?;
        }
    }
    st.class(if accepted_by_any { "accepted_by_some_type" } else { "rejected_by_all" });
    Ok(())
}

pub fn strategy() -> impl Strategy<Value = Case> {
    (gens::text_mix(), prop_oneof![Just(0usize), Just(7usize), any::<usize>()]).prop_map(|(text, idx)| Case { text, idx })
}

/// The strict-parser clause: the same kind of texts evaluated by probes built with the
/// `strict-parser` feature (both assertion profiles), judged against the raw-counting reference
/// grammar for all six types and against the default-parser probe ("differs only by rejecting texts
/// whose raw block hash exceeds the capacity; raw / normalising / dual types accept the same texts").
fn run_strict(ctx: &crate::engine::Ctx, n: usize) -> crate::engine::SubResult {
    use crate::checks::c14::{judge_strict, root, run_probe};
    use proptest::strategy::ValueTree;
    use proptest::test_runner::{Config, RngAlgorithm, TestRng, TestRunner};
    let t0 = std::time::Instant::now();
    let name = "strict_parser_vs_grammar";
    let rule = "parser texts (as in parse_vs_grammar) evaluated by the strict-parser probes (release and release+debug-assertions): accept / reject, decoded content, end index, index-untouched and error origin against the reference grammar with raw counting for all six types; relation to the default parser; non-trivial = texts accepted by the default parser for some type; distinct by text";
    let mut stats = Stats::default();
    let mk = |failure: Option<crate::engine::Failure>, stats: Stats, samples: Vec<serde_json::Value>| crate::engine::SubResult {
        name: name.to_string(),
        rule: rule.to_string(),
        stats,
        samples,
        exhaustive: false,
        failure,
        wall_s: t0.elapsed().as_secs_f64(),
        extra: Default::default(),
    };
    let seed = ctx.worker_seed("c04-strict-corpus", 0);
    let mut runner = TestRunner::new_with_rng(Config::default(), TestRng::from_seed(RngAlgorithm::ChaCha, &seed));
    let strat = gens::text_mix();
    let texts: Vec<Vec<u8>> = (0..n).map(|_| strat.new_tree(&mut runner).expect("strategy").current()).collect();
    let dir = root().join("target").join("c14");
    let _ = std::fs::create_dir_all(&dir);
    let path = dir.join(format!("c04-strict-{}-{}.jsonl", ctx.seed, std::process::id()));
    let body: String = texts.iter().map(|t| serde_json::to_string(&corpus::Line::Parse { text: t.clone() }).unwrap() + "\n").collect();
    let harness_fail = |m: String| crate::engine::Failure { subcheck: name.to_string(), message: format!("HARNESS-PANIC: {}", m), case: serde_json::Value::Null, harness_fault: true };
    if let Err(e) = std::fs::write(&path, body) {
        return mk(Some(harness_fail(e.to_string())), stats, vec![]);
    }
    let (base, s1, s2) = std::thread::scope(|sc| {
        let a = sc.spawn(|| run_probe("f-default", "release", &path));
        let b = sc.spawn(|| run_probe("f-strict", "release", &path));
        let c = sc.spawn(|| run_probe("f-strict", "relda", &path));
        (a.join().expect("probe"), b.join().expect("probe"), c.join().expect("probe"))
    });
    let _ = std::fs::remove_file(&path);
    let (base, s1, s2) = match (base, s1, s2) {
        (Ok(a), Ok(b), Ok(c)) => (a, b, c),
        (a, b, c) => return mk(Some(harness_fail(format!("{:?}", [a.err(), b.err(), c.err()]))), stats, vec![]),
    };
    let mut samples = vec![];
    for (i, t) in texts.iter().enumerate() {
        for (prof, tr) in [("release", &s1), ("relda", &s2)] {
            let got = tr.get(i).cloned().unwrap_or_else(|| "#MISSING# (probe died)".to_string());
            let d = base.get(i).cloned().unwrap_or_default();
            let r = if got.contains("#PANIC#") || got.contains("#MISSING#") { Err(format!("probe output {}", got)) } else { judge_strict(t, &got, &d) };
            if let Err(m) = r {
                return mk(
                    Some(crate::engine::Failure {
                        subcheck: name.to_string(),
                        message: format!("strict-parser/{}: {} [text {:?}]", prof, m, String::from_utf8_lossy(t)),
                        case: serde_json::json!({"line": {"Parse": {"text": t}}, "config": format!("strict-parser/{}", prof)}),
                        harness_fault: false,
                    }),
                    stats,
                    samples,
                );
            }
            stats.evaluations += 1;
        }
        if base[i].contains("=OK,") {
            stats.nontrivial(oracle::fingerprint(t));
            if samples.len() < 3 && i % 11 == 5 {
                samples.push(serde_json::json!({"text": String::from_utf8_lossy(t), "strict": s1[i]}));
            }
        }
        if s1[i] != base[i] {
            stats.class("strict_differs_from_default");
        }
    }
    mk(None, stats, samples)
}

pub fn subchecks(tier: Tier) -> Vec<SubCheck> {
    let cases = tier.pick(1_000_000, 12_000_000);
    let n_strict = tier.pick(150_000usize, 2_000_000usize);
    let mut v = Vec::new();
    // (the probes cover both assertion profiles themselves: not repeated in the relda pass)
    if !cfg!(debug_assertions) {
      v.push(SubCheck {
        name: "strict_parser_vs_grammar",
        run: Box::new(move |ctx| run_strict(ctx, n_strict)),
        replay: Box::new(|v| crate::checks::c14::subchecks(Tier::Quick)[0].replay.as_ref()(v)),
      });
    }
    v.push(generated(
        "parse_vs_grammar",
        "texts: grammar-derived around the capacities, mutated, noise; x 6 types x (from_bytes, from_bytes_with_last_index with 3 index presets, str::parse); non-trivial = grammar-valid text with a block hash length within 3 of a capacity or raw > capacity >= collapsed, or a reject whose first defect lies past the block size; distinct by text",
        cases,
        strategy,
        eval,
    ));
    v
}
