//! C10 - score laws and the candidate / window pre-filter that clustering relies on.

use crate::api::build_norm;
use crate::engine::{generated, must, Stats, SubCheck, Tier};
use crate::gens::{self, RawH};
use proptest::prelude::*;
use serde::{Deserialize, Serialize};
use ssdeep::{FuzzyHash, FuzzyHashCompareTarget, FuzzyHashData, LongFuzzyHash};
use std::collections::BTreeSet;

#[derive(Debug, Clone, Serialize, Deserialize)]
pub struct Case {
    /// both collapsed
    pub a: RawH,
    pub b: RawH,
}

/// numeric window of a 7-symbol slice from first principles: sum sym_j * 64^(6-j)
fn numeric(slice: &[u8]) -> u64 {
    let mut v: u64 = 0;
    for (j, &s) in slice.iter().enumerate() {
        v += (s as u64) * 64u64.pow(6 - j as u32);
    }
    v
}

/// index windows from first principles: numeric | (effective log << 42)
fn ref_index_windows(h: &RawH) -> (Vec<u64>, Vec<u64>) {
    let w1 = h.bh1.windows(7).map(|w| numeric(w) | ((h.log as u64) << 42)).collect();
    let w2 = h.bh2.windows(7).map(|w| numeric(w) | ((h.log as u64 + 1) << 42)).collect();
    (w1, w2)
}

/// candidate from first principles: equal effective block size and a shared 7-symbol slice
fn ref_candidate(a: &RawH, b: &RawH) -> bool {
    let share = |x: &[u8], y: &[u8]| oracle::cmp::has_common_7gram(x, y);
    let mut c = false;
    // (effective log, block hash) of each
    let ea = [(a.log as u32, &a.bh1), (a.log as u32 + 1, &a.bh2)];
    let eb = [(b.log as u32, &b.bh1), (b.log as u32 + 1, &b.bh2)];
    for (la, xa) in ea.iter() {
        for (lb, xb) in eb.iter() {
            if la == lb && share(xa, xb) {
                c = true;
            }
        }
    }
    c
}

macro_rules! check_windows {
    ($h:expr, $r:expr, $what:expr) => {{
        let h = &$h;
        let r: &RawH = $r;
        let (rw1, rw2) = ref_index_windows(r);
        let w1: Vec<Vec<u8>> = h.block_hash_1_windows().map(|w| w.to_vec()).collect();
        let e1: Vec<Vec<u8>> = r.bh1.windows(7).map(|w| w.to_vec()).collect();
        ensure_eq!(w1, e1, "{} block_hash_1_windows", $what);
        let w2: Vec<Vec<u8>> = h.block_hash_2_windows().map(|w| w.to_vec()).collect();
        let e2: Vec<Vec<u8>> = r.bh2.windows(7).map(|w| w.to_vec()).collect();
        ensure_eq!(w2, e2, "{} block_hash_2_windows", $what);
        let n1 = must("block_hash_1_numeric_windows", || {
            let it = h.block_hash_1_numeric_windows();
            let l = it.len();
            (l, it.collect::<Vec<u64>>())
        })?;
        ensure_eq!(n1.0, r.bh1.len().saturating_sub(6), "{} numeric windows 1: ExactSizeIterator::len", $what);
        ensure_eq!(n1.1, r.bh1.windows(7).map(numeric).collect::<Vec<u64>>(), "{} block_hash_1_numeric_windows", $what);
        let n2 = must("block_hash_2_numeric_windows", || {
            let it = h.block_hash_2_numeric_windows();
            let l = it.len();
            (l, it.collect::<Vec<u64>>())
        })?;
        ensure_eq!(n2.0, r.bh2.len().saturating_sub(6), "{} numeric windows 2: ExactSizeIterator::len", $what);
        ensure_eq!(n2.1, r.bh2.windows(7).map(numeric).collect::<Vec<u64>>(), "{} block_hash_2_numeric_windows", $what);
        let i1 = must("block_hash_1_index_windows", || {
            let it = h.block_hash_1_index_windows();
            let l = it.len();
            (l, it.collect::<Vec<u64>>())
        })?;
        ensure_eq!(i1.0, rw1.len(), "{} index windows 1: len", $what);
        ensure_eq!(i1.1, rw1, "{} block_hash_1_index_windows", $what);
        let i2 = must("block_hash_2_index_windows", || {
            let it = h.block_hash_2_index_windows();
            let l = it.len();
            (l, it.collect::<Vec<u64>>())
        })?;
        ensure_eq!(i2.0, rw2.len(), "{} index windows 2: len", $what);
        ensure_eq!(i2.1, rw2, "{} block_hash_2_index_windows", $what);
        // the advertised widths of the two encodings describe exactly these values: 7 symbols x 6 bits, plus 5 bits
        // of effective block size on top
        {
            use ssdeep::block_hash::{IndexWindows, NumericWindows};
            ensure_eq!((NumericWindows::BITS, NumericWindows::MASK), (42, (1u64 << 42) - 1), "NumericWindows::BITS / MASK");
            ensure_eq!((IndexWindows::BITS, IndexWindows::MASK), (47, (1u64 << 47) - 1), "IndexWindows::BITS / MASK");
            ensure!(n1.1.iter().chain(n2.1.iter()).all(|&w| w <= NumericWindows::MASK), "{} a numeric window exceeds NumericWindows::MASK", $what);
            ensure!(i1.1.iter().chain(i2.1.iter()).all(|&w| w <= IndexWindows::MASK), "{} an index window exceeds IndexWindows::MASK", $what);
        }
        // injectivity of the numeric encoding on this hash: equal numbers <=> equal slices
        for (x, wx) in r.bh1.windows(7).enumerate() {
            for (y, wy) in r.bh1.windows(7).enumerate() {
                if (n1.1[x] == n1.1[y]) != (wx == wy) {
                    return Err(format!("{} numeric window encoding not injective at {} / {}", $what, x, y));
                }
            }
        }
        let mut set: BTreeSet<u64> = BTreeSet::new();
        set.extend(i1.1.iter().copied());
        set.extend(i2.1.iter().copied());
        set
    }};
}

macro_rules! laws {
    ($ha:expr, $hb:expr, $a:expr, $b:expr, $st:expr, $tag:expr) => {{
        let (ha, hb) = (&$ha, &$hb);
        let (a, b): (&RawH, &RawH) = ($a, $b);
        let tag = $tag;
        let sab = must("compare", || ha.compare(hb))?;
        let sba = must("compare", || hb.compare(ha))?;
        ensure!(sab <= 100, "{} score {} out of 0..=100 [{} vs {}]", tag, sab, a.text(), b.text());
        ensure_eq!(sab, sba, "{} symmetry [{} vs {}]", tag, a.text(), b.text());
        ensure_eq!(must("compare", || ha.compare(ha))?, 100, "{} self comparison [{}]", tag, a.text());
        ensure_eq!(must("compare", || hb.compare(hb))?, 100, "{} self comparison [{}]", tag, b.text());
        let far = (a.log as i32 - b.log as i32).abs() > 1;
        if far {
            ensure_eq!(sab, 0, "{} far block sizes must score 0 [{} vs {}]", tag, a.text(), b.text());
        }
        // comparison targets that held another hash before (empty block hash 1, the partner's symbols as
        // block hash 2): clustering code re-uses one target for many hashes
        let mut prev = *hb;
        prev.normalize_in_place();
        let prev = {
            let mut q = prev.to_raw_form();
            q = must("new_from_internals_near_raw", || {
                let s = if b.bh1.len() >= b.bh2.len() { &b.bh1 } else { &b.bh2 };
                let mut s2 = s.clone();
                s2.truncate(q.block_hash_2_as_array().len());
                FuzzyHashData::new_from_internals_near_raw(a.log, &[], &s2)
            })?;
            q.normalize()
        };
        let mut ta = must("FuzzyHashCompareTarget::from", || FuzzyHashCompareTarget::from(&prev))?;
        must("init_from", || ta.init_from(ha))?;
        let mut tb = must("FuzzyHashCompareTarget::from", || FuzzyHashCompareTarget::from(&prev))?;
        must("init_from", || tb.init_from(hb))?;
        let cab = must("is_comparison_candidate", || ta.is_comparison_candidate(hb))?;
        let cba = must("is_comparison_candidate", || tb.is_comparison_candidate(ha))?;
        ensure_eq!(cab, cba, "{} candidate symmetry [{} vs {}]", tag, a.text(), b.text());
        let equal = a == b;
        ensure_eq!(sab > 0, equal || cab, "{} score>0 <=> equal or candidate (score {}, equal {}, candidate {}) [{} vs {}]", tag, sab, equal, cab, a.text(), b.text());
        ensure_eq!(cab, ref_candidate(a, b), "{} candidate vs first-principles definition [{} vs {}]", tag, a.text(), b.text());
        ensure_eq!(must("target.compare", || ta.compare(hb))?, sab, "{} target score", tag);
        // specialised candidate entry points
        match b.log as i32 - a.log as i32 {
            0 => ensure_eq!(must("is_comparison_candidate_near_eq", || ta.is_comparison_candidate_near_eq(hb))?, cab, "{} candidate_near_eq", tag),
            1 => ensure_eq!(must("is_comparison_candidate_near_lt", || ta.is_comparison_candidate_near_lt(hb))?, cab, "{} candidate_near_lt", tag),
            -1 => ensure_eq!(must("is_comparison_candidate_near_gt", || ta.is_comparison_candidate_near_gt(hb))?, cab, "{} candidate_near_gt", tag),
            _ => {}
        }
        let wa = check_windows!(*ha, a, format!("{} a", tag));
        let wb = check_windows!(*hb, b, format!("{} b", tag));
        let intersect = wa.intersection(&wb).next().is_some();
        ensure_eq!(cab, intersect, "{} candidate <=> index window sets intersect [{} vs {}]", tag, a.text(), b.text());
        $st.class(if cab { "candidate=yes" } else { "candidate=no" });
        if equal {
            $st.class("equal");
        }
        (sab, cab)
    }};
}

pub fn eval(case: &Case, st: &mut Stats) -> Result<(), String> {
    let (a, b) = (&case.a, &case.b);
    let la: LongFuzzyHash = build_norm::<64, 64>(a)?;
    let lb: LongFuzzyHash = build_norm::<64, 64>(b)?;
    let (_s, _c) = laws!(la, lb, a, b, st, "long");
    if a.bh2.len() <= 32 && b.bh2.len() <= 32 {
        let sa: FuzzyHash = build_norm::<64, 32>(a)?;
        let sb: FuzzyHash = build_norm::<64, 32>(b)?;
        let (_s2, _c2) = laws!(sa, sb, a, b, st, "short");
        st.class("short_too");
    }
    st.class(&format!("dlog={:+}", (b.log as i32 - a.log as i32).clamp(-2, 2)));
    if a.log == 30 || b.log == 30 {
        st.class("log30_involved");
    }
    let near = (a.log as i32 - b.log as i32).abs() <= 1;
    let long_enough = match b.log as i32 - a.log as i32 {
        0 => (a.bh1.len() >= 7 && b.bh1.len() >= 7) || (a.bh2.len() >= 7 && b.bh2.len() >= 7),
        1 => a.bh2.len() >= 7 && b.bh1.len() >= 7,
        -1 => a.bh1.len() >= 7 && b.bh2.len() >= 7,
        _ => false,
    };
    if near && long_enough {
        st.nontrivial(oracle::fingerprint(format!("{}|{}", a.text(), b.text()).as_bytes()));
    }
    Ok(())
}

/// pairs of normalised hashes over the full 31x31 matrix of block sizes
pub fn strategy() -> impl Strategy<Value = Case> {
    (
        0u8..31,
        prop_oneof![3 => Just(0i8), 2 => Just(1i8), 2 => Just(-1i8), 1 => -30i8..=30],
        gens::block_hash_norm(64),
        gens::block_hash_norm(64),
        proptest::collection::vec(gens::edit(), 0..6),
        proptest::collection::vec(gens::edit(), 0..6),
        prop_oneof![4 => Just(0u8), 1 => Just(1u8), 1 => Just(2u8)],
        gens::block_hash_norm(64),
        gens::block_hash_norm(64),
        any::<bool>(),
    )
        .prop_map(|(alog, d, a1, a2, e1, e2, mode, f1, f2, short)| {
            let blog = (alog as i16 + d as i16).clamp(0, 30) as u8;
            let cap2 = if short { 32 } else { 64 };
            let mut a = RawH { log: alog, bh1: a1, bh2: a2 };
            a.bh2.truncate(cap2);
            a = a.collapsed();
            // derive so that the comparable block hashes are related
            let (s1, s2): (&[u8], &[u8]) = match blog as i32 - alog as i32 {
                1 => (&a.bh2, &a.bh1),
                -1 => (&a.bh2, &a.bh1),
                _ => (&a.bh1, &a.bh2),
            };
            let (b1, b2) = match mode {
                0 => (gens::apply_edits(s1, &e1, 64), gens::apply_edits(s2, &e2, cap2)),
                1 => (s1.to_vec(), { let mut v = s2.to_vec(); v.truncate(cap2); v }),
                _ => (f1.clone(), { let mut v = f2.clone(); v.truncate(cap2); v }),
            };
            let b = RawH { log: blog, bh1: b1, bh2: b2 }.collapsed();
            Case { a, b }
        })
}

/// every (log a, log b) at least once: a systematic sweep of the 31x31 matrix with content
pub fn matrix_strategy() -> impl Strategy<Value = Case> {
    (
        0u8..31,
        0u8..31,
        gens::block_hash_norm(64),
        gens::block_hash_norm(32),
        proptest::collection::vec(gens::edit(), 0..4),
    )
        .prop_map(|(alog, blog, a1, a2, e)| {
            let a = RawH { log: alog, bh1: a1, bh2: a2 };
            let b = RawH {
                log: blog,
                bh1: gens::apply_edits(&a.bh2, &e, 64),
                bh2: gens::apply_edits(&a.bh1, &e, 32),
            }
            .collapsed();
            Case { a, b }
        })
}

pub fn subchecks(tier: Tier) -> Vec<SubCheck> {
    vec![
        generated(
            "laws_near",
            "pairs of normalised hashes, block sizes mostly equal / double / half with the comparable block hashes derived from one another (edits, copies, unrelated), short and long; range, symmetry, self = 100, far = 0, score>0 <=> equal or candidate, candidate = first-principles definition = index-window intersection, window encodings from first principles; non-trivial = near relation and >= 7 symbols in a compared pair; distinct by the two texts",
            tier.pick(1_200_000, 12_000_000),
            strategy,
            eval,
        ),
        generated(
            "laws_matrix_31x31",
            "uniform over all 31x31 block-size pairs (incl. log 30 whose block hash 2 has effective index 31) with crossed derived content; same laws",
            tier.pick(31 * 31 * 60, 31 * 31 * 1000),
            matrix_strategy,
            eval,
        ),
    ]
}
