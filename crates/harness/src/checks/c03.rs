//! C03 - the hash depends only on the byte stream, not on how it is fed.

use crate::checks::c01::{check_generator_output, reference};
use crate::engine::{generated, must, pick_index, Stats, SubCheck, Tier};
use crate::gens::{self, Prog};
use proptest::prelude::*;
use serde::{Deserialize, Serialize};
use ssdeep::Generator;
use std::io::Read;

#[derive(Debug, Clone, Serialize, Deserialize)]
pub enum Op {
    Update { n: u32 },
    /// hint: 0 exact, 1 (0, None), 2 (0, Some(overstated)), 3 (understated lower, overstated upper)
    UpdateIter { n: u32, hint: u8 },
    UpdateByte,
    AddSlice { n: u32 },
    /// k selects the array length among 1, 2, 7, 8, 64
    AddArray { k: u8 },
    AddByte,
    Clone,
    /// `Clone::clone_from` into a destination that had a life of its own (see `dirty_destination`)
    CloneFrom { dirty: u8 },
    /// variant: 0 finalize, 1 without truncation, 2 raw<false,64,32>, 3 raw<true,64,64>
    Finalize,
    /// feed up to (anchor-th interesting position + delta)
    UpdateTo { anchor: u16, delta: i8, form: u8 },
}

#[derive(Debug, Clone, Serialize, Deserialize)]
pub struct Case {
    pub prog: Prog,
    pub ops: Vec<Op>,
    /// read sizes of the chunking reader (cycled), each >= 1
    pub reads: Vec<u16>,
    /// zero bytes fed through the hook before the history starts (0 = none): moves the history to
    /// high block-size levels, where a burst of eliminations follows the first triggers
    #[serde(default)]
    pub zero_prefix: u64,
}

pub struct HintIter<'a> {
    pub inner: std::slice::Iter<'a, u8>,
    pub hint: u8,
}
impl Iterator for HintIter<'_> {
    type Item = u8;
    fn next(&mut self) -> Option<u8> {
        self.inner.next().copied()
    }
    fn size_hint(&self) -> (usize, Option<usize>) {
        let n = self.inner.len();
        // only hints an iterator may legally give: lower bound <= remaining <= upper bound
        match self.hint {
            0 => (n, Some(n)),
            1 => (0, None),
            2 => (0, Some(n.saturating_mul(2) + 3)),
            _ => (n / 2, Some(n + 10)),
        }
    }
}

pub struct ChunkReader<'a> {
    pub data: &'a [u8],
    pub pos: usize,
    pub sizes: &'a [u16],
    pub k: usize,
}
impl Read for ChunkReader<'_> {
    fn read(&mut self, buf: &mut [u8]) -> std::io::Result<usize> {
        if self.pos >= self.data.len() || buf.is_empty() {
            return Ok(0);
        }
        let want = if self.sizes.is_empty() { buf.len() } else { (self.sizes[self.k % self.sizes.len()] as usize).max(1) };
        self.k += 1;
        let n = want.min(buf.len()).min(self.data.len() - self.pos);
        buf[..n].copy_from_slice(&self.data[self.pos..self.pos + n]);
        self.pos += n;
        Ok(n)
    }
}

fn feed(g: &mut Generator, chunk: &[u8], form: u8, forms: &mut u32) -> Result<(), String> {
    match form % 5 {
        0 => {
            *forms |= 1;
            must("update", || {
                g.update(chunk);
            })
        }
        1 => {
            *forms |= 2;
            must("update_by_iter", || {
                g.update_by_iter(chunk.iter().copied());
            })
        }
        2 => {
            *forms |= 4;
            must("update_by_byte", || {
                for &b in chunk {
                    g.update_by_byte(b);
                }
            })
        }
        3 => {
            *forms |= 8;
            must("+= &[u8]", || {
                *g += chunk;
            })
        }
        _ => {
            *forms |= 16;
            must("+= u8", || {
                for &b in chunk {
                    *g += b;
                }
            })
        }
    }
}

/// Destinations for `clone_from`: generators that processed something else before (a small declared size and a
/// few bytes; a busy life that opened many block-size levels; a finished declared life; an older state of
/// the same stream) - whatever they held must be gone after `clone_from`.
fn dirty_destination(dirty: u8, clones: &[(Generator, usize)]) -> Result<Generator, String> {
    static NOISE: std::sync::OnceLock<Vec<u8>> = std::sync::OnceLock::new();
    let mut d = Generator::new();
    match dirty % 5 {
        0 => {}
        1 => {
            let _ = must("set_fixed_input_size", || d.set_fixed_input_size(100))?;
            must("update", || {
                d.update(&[0x55u8; 37]);
            })?;
        }
        2 => {
            let noise = NOISE.get_or_init(|| {
                let mut v = vec![0u8; 24_000];
                oracle::words::SplitMix(0xC03).fill(&mut v);
                v
            });
            must("update", || {
                d.update(noise);
            })?;
        }
        3 => {
            let _ = must("set_fixed_input_size", || d.set_fixed_input_size(3))?;
            must("update", || {
                d.update(b"abc");
            })?;
            let _ = must("finalize", || d.finalize())?;
        }
        _ => {
            if let Some((old, _)) = clones.first() {
                d = must("clone", || old.clone())?;
            }
        }
    }
    Ok(d)
}

fn one_shot_text(zero_prefix: u64, data: &[u8]) -> Result<(String, String), String> {
    let mut g = Generator::new();
    if zero_prefix > 0 {
        g.verif_feed_zeroes(zero_prefix);
    }
    must("update", || {
        g.update(data);
    })?;
    let a = must("finalize", || g.finalize())?.map_err(|e| format!("one-shot finalize failed: {:?}", e))?;
    let b = must("finalize_without_truncation", || g.finalize_without_truncation())?
        .map_err(|e| format!("one-shot finalize_without_truncation failed: {:?}", e))?;
    Ok((a.to_string(), b.to_string()))
}

pub fn eval(case: &Case, st: &mut Stats) -> Result<(), String> {
    let data = case.prog.render();
    let z = case.zero_prefix;
    let (r, s) = if z == 0 {
        reference(&data)
    } else {
        let segs = [oracle::gen::Seg::Zeros(z), oracle::gen::Seg::Bytes(&data)];
        let (b, sb) = oracle::gen::model_b_segs(&segs, None).expect("model B");
        let (a, _) = oracle::gen::model_a_segs(&segs).expect("model A");
        assert!(a == b, "ORACLE SELF-CHECK: model A != model B");
        (b, sb)
    };
    let (elim, bounds) = oracle::gen::interesting_positions_after_zeros(z, &data, r.log.saturating_sub(1));
    let mut anchors: Vec<usize> = elim.clone();
    anchors.extend(bounds.iter().copied());
    anchors.sort_unstable();
    let mut g = Generator::new();
    if z > 0 {
        must("verif_feed_zeroes", || {
            g.verif_feed_zeroes(z);
        })?;
        st.class("zero_prefix_via_hook");
    }
    let mut pos = 0usize;
    let mut forms = 0u32;
    let mut cuts: Vec<usize> = Vec::new();
    let mut clones: Vec<(Generator, usize)> = Vec::new();
    let mut finals = 0;
    for op in &case.ops {
        let rest = data.len() - pos;
        match op {
            Op::Update { n } => {
                let n = (*n as usize).min(rest);
                feed(&mut g, &data[pos..pos + n], 0, &mut forms)?;
                pos += n;
            }
            Op::UpdateIter { n, hint } => {
                let n = (*n as usize).min(rest);
                forms |= 2;
                let it = HintIter { inner: data[pos..pos + n].iter(), hint: *hint % 4 };
                must("update_by_iter", || {
                    g.update_by_iter(it);
                })?;
                if *hint % 4 != 0 {
                    st.class("inexact_size_hint");
                }
                pos += n;
            }
            Op::UpdateByte => {
                if rest > 0 {
                    feed(&mut g, &data[pos..pos + 1], 2, &mut forms)?;
                    pos += 1;
                }
            }
            Op::AddSlice { n } => {
                let n = (*n as usize).min(rest);
                feed(&mut g, &data[pos..pos + n], 3, &mut forms)?;
                pos += n;
            }
            Op::AddArray { k } => {
                let n = [1usize, 2, 7, 8, 64][*k as usize % 5];
                if rest >= n {
                    forms |= 32;
                    let c = &data[pos..pos + n];
                    must("+= &[u8; N]", || match n {
                        1 => g += <&[u8; 1]>::try_from(c).unwrap(),
                        2 => g += <&[u8; 2]>::try_from(c).unwrap(),
                        7 => g += <&[u8; 7]>::try_from(c).unwrap(),
                        8 => g += <&[u8; 8]>::try_from(c).unwrap(),
                        _ => g += <&[u8; 64]>::try_from(c).unwrap(),
                    })?;
                    pos += n;
                }
            }
            Op::AddByte => {
                if rest > 0 {
                    feed(&mut g, &data[pos..pos + 1], 4, &mut forms)?;
                    pos += 1;
                }
            }
            Op::Clone => {
                let c = must("clone", || g.clone())?;
                clones.push((std::mem::replace(&mut g, c), pos));
                st.class("clone");
            }
            Op::CloneFrom { dirty } => {
                let mut dst = dirty_destination(*dirty, &clones)?;
                must("clone_from", || dst.clone_from(&g))?;
                clones.push((std::mem::replace(&mut g, dst), pos));
                st.class("clone_from_into_used_destination");
            }
            Op::Finalize => {
                if finals < 3 {
                    finals += 1;
                    let (es, el) = one_shot_text(case.zero_prefix, &data[..pos])?;
                    let a = must("finalize", || g.finalize())?.map_err(|e| format!("mid-stream finalize failed at {}: {:?}", pos, e))?;
                    ensure_eq!(a.to_string(), es, "mid-stream finalize() after {} of {} bytes vs one-shot hash of that prefix", pos, data.len());
                    let b = must("finalize_without_truncation", || g.finalize_without_truncation())?
                        .map_err(|e| format!("mid-stream finalize_without_truncation failed at {}: {:?}", pos, e))?;
                    ensure_eq!(b.to_string(), el, "mid-stream finalize_without_truncation() after {} of {} bytes", pos, data.len());
                    ensure_eq!(g.input_size(), z + pos as u64, "input_size() mid-stream");
                    st.class("midstream_finalize");
                }
            }
            Op::UpdateTo { anchor, delta, form } => {
                if !anchors.is_empty() {
                    let a = anchors[pick_index(*anchor, anchors.len())] as i64 + 1 + *delta as i64;
                    if a > pos as i64 && a <= data.len() as i64 {
                        let a = a as usize;
                        feed(&mut g, &data[pos..a], *form, &mut forms)?;
                        pos = a;
                    }
                }
            }
        }
        cuts.push(pos);
    }
    feed(&mut g, &data[pos..], 0, &mut forms)?;
    ensure_eq!(g.input_size(), z + data.len() as u64, "input_size() after the history");
    check_generator_output(&g, &r, "after the generated history")?;
    // clones taken on the way are untouched by what happened to their successors
    for (old, p) in &clones {
        let (es, _) = one_shot_text(case.zero_prefix, &data[..*p])?;
        let a = must("finalize", || old.finalize())?.map_err(|e| format!("finalize of a clone source failed: {:?}", e))?;
        ensure_eq!(a.to_string(), es, "generator that was cloned at byte {} changed afterwards", p);
        ensure_eq!(old.input_size(), z + *p as u64, "input_size() of the generator that was cloned");
    }
    if z > 0 {
        return finish(case, st, nforms_of(forms), &cuts, &bounds, &elim, &data, s.cnt_sel);
    }
    // the easy functions
    let exp_short = oracle::fmt::format_hash(r.log, &r.bh1, &r.bh2_trunc);
    let hb = must("hash_buf", || ssdeep::hash_buf(&data))?.map_err(|e| format!("hash_buf failed: {:?}", e))?;
    ensure_eq!(hb.to_string(), exp_short, "hash_buf()");
    let mut rd = ChunkReader { data: &data, pos: 0, sizes: &case.reads, k: 0 };
    let hs = must("hash_stream", || ssdeep::hash_stream(&mut rd))?.map_err(|e| format!("hash_stream failed: {:?}", e))?;
    ensure_eq!(hs.to_string(), exp_short, "hash_stream() with read sizes {:?}", &case.reads[..case.reads.len().min(8)]);
    finish(case, st, nforms_of(forms), &cuts, &bounds, &elim, &data, s.cnt_sel)
}

fn nforms_of(forms: u32) -> u32 {
    forms.count_ones()
}

#[allow(clippy::too_many_arguments)]
fn finish(case: &Case, st: &mut Stats, nforms: u32, cuts: &[usize], bounds: &[usize], elim: &[usize], data: &[u8], cnt_sel: u64) -> Result<(), String> {
    // classification
    st.class(&format!("forms_used={}", nforms));
    let in_window = cuts.iter().any(|&c| c > 0 && c < data.len() && bounds.iter().any(|&b| b + 1 > c && b + 1 - c <= 6));
    if in_window {
        st.class("cut_inside_trigger_window");
    }
    let around_elim = cuts.iter().any(|&c| elim.iter().any(|&e| (c as i64 - e as i64 - 1).abs() <= 7));
    if around_elim {
        st.class("cut_around_elimination");
    }
    if !elim.is_empty() {
        st.class("eliminations>=1");
    }
    if elim.len() >= 8 {
        st.class("eliminations>=8");
    }
    if nforms >= 2 && in_window && cnt_sel >= 1 {
        st.nontrivial(oracle::fingerprint(format!("{:?}{:?}", case.prog, case.ops).as_bytes()));
    }
    Ok(())
}

fn chunk_size(max: u32) -> impl Strategy<Value = u32> {
    prop_oneof![
        1 => Just(0u32),
        5 => 1u32..=8,
        3 => gens::size_log_uniform(max),
        1 => Just(u32::MAX),
    ]
}

fn op(max: u32) -> impl Strategy<Value = Op> {
    prop_oneof![
        3 => chunk_size(max).prop_map(|n| Op::Update { n }),
        3 => (chunk_size(max), 0u8..4).prop_map(|(n, hint)| Op::UpdateIter { n, hint }),
        2 => Just(Op::UpdateByte),
        2 => chunk_size(max).prop_map(|n| Op::AddSlice { n }),
        2 => (0u8..5).prop_map(|k| Op::AddArray { k }),
        1 => Just(Op::AddByte),
        1 => Just(Op::Clone),
        1 => (0u8..5).prop_map(|dirty| Op::CloneFrom { dirty }),
        1 => Just(Op::Finalize),
        6 => (any::<u16>(), -7i8..=7, 0u8..5).prop_map(|(anchor, delta, form)| Op::UpdateTo { anchor, delta, form }),
    ]
}

pub fn strategy(wt: u64, tier: Tier) -> impl Strategy<Value = Case> {
    let (max_n, max_border, max_ops) = tier.pick((1u32 << 18, 10u8, 40usize), (1u32 << 20, 12u8, 120usize));
    (
        gens::prog_mix(wt, max_n, max_border),
        proptest::collection::vec(op(max_n), 0..=max_ops),
        proptest::collection::vec(prop_oneof![3 => 1u16..=9, 1 => 1u16..=40000], 0..6),
    )
        .prop_map(|(prog, ops, reads)| Case { prog, ops, reads, zero_prefix: 0 })
        .prop_flat_map(|c| {
            (Just(c), prop_oneof![4 => Just(0u64), 1 => (20u32..=36, any::<u64>()).prop_map(|(b, r)| (1u64 << b) + r % (1u64 << b))]).prop_map(|(mut c, z)| {
                c.zero_prefix = z;
                c
            })
        })
}

pub fn subchecks(tier: Tier) -> Vec<SubCheck> {
    let wt_seed = move || -> u64 {
        std::env::var("VERIF_SEED").ok().and_then(|s| s.trim().parse::<i128>().ok()).map(|v| v as u64).unwrap_or(0) ^ 0xC03
    };
    vec![generated(
        "histories_vs_one_shot",
        "(byte program, call history): update / update_by_iter (exact and inexact size_hint) / update_by_byte / += slice / += array of 1,2,7,8,64 / += byte / clone / clone_from into a used destination / mid-stream finalize, chunk sizes 0, 1..8, log-uniform, and cuts placed -7..+7 around piece boundaries and elimination points; final finalize*, input_size, hash_buf, hash_stream with generated read sizes equal the one-shot result (and the reference model); every mid-stream finalize equals the one-shot hash of the prefix; clone sources stay untouched; non-trivial = >= 2 update forms and a cut inside a trigger window and >= 1 piece at the selected level; distinct by (program, history)",
        tier.pick(120_000, 800_000),
        move || strategy(wt_seed(), tier),
        eval,
    )]
}
