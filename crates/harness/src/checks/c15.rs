//! C15 - conversions between hash variants commute and lose nothing (abstract value model).

use crate::api::{build_norm, build_raw};
use crate::engine::{generated, must, Stats, SubCheck, Tier};
use crate::gens::{self, RawH};
use proptest::prelude::*;
use serde::{Deserialize, Serialize};
use ssdeep::{
    DualFuzzyHash, FuzzyHash, FuzzyHashOperationError, LongDualFuzzyHash, LongFuzzyHash, LongRawFuzzyHash, RawFuzzyHash,
};

#[derive(Debug, Clone, Serialize, Deserialize)]
pub struct Case {
    pub start: RawH,
    /// 0 Raw, 1 LongRaw, 2 Norm, 3 LongNorm, 4 Dual, 5 LongDual
    pub start_ty: u8,
    /// (operation selector, use a dirty destination)
    pub chain: Vec<(u8, bool)>,
    pub dirt: RawH,
}

#[derive(Clone)]
enum Obj {
    R(RawFuzzyHash),
    LR(LongRawFuzzyHash),
    N(FuzzyHash),
    LN(LongFuzzyHash),
    D(DualFuzzyHash),
    LD(LongDualFuzzyHash),
}

#[derive(Debug, Clone, Copy, PartialEq, Eq)]
enum Ty {
    R,
    LR,
    N,
    LN,
    D,
    LD,
}

impl Ty {
    fn is_long(self) -> bool {
        matches!(self, Ty::LR | Ty::LN | Ty::LD)
    }
    fn is_norm(self) -> bool {
        matches!(self, Ty::N | Ty::LN)
    }
}

/// abstract value: type + content (collapsed for the normalising types, raw otherwise)
#[derive(Debug, Clone, PartialEq)]
struct Abs {
    ty: Ty,
    h: RawH,
}

fn build(abs: &Abs) -> Result<Obj, String> {
    Ok(match abs.ty {
        Ty::R => Obj::R(build_raw::<64, 32>(&abs.h)?),
        Ty::LR => Obj::LR(build_raw::<64, 64>(&abs.h)?),
        Ty::N => Obj::N(build_norm::<64, 32>(&abs.h)?),
        Ty::LN => Obj::LN(build_norm::<64, 64>(&abs.h)?),
        Ty::D => {
            let r = build_raw::<64, 32>(&abs.h)?;
            Obj::D(must("DualFuzzyHash::from_raw_form", || DualFuzzyHash::from_raw_form(&r))?)
        }
        Ty::LD => {
            let r = build_raw::<64, 64>(&abs.h)?;
            Obj::LD(must("LongDualFuzzyHash::from_raw_form", || LongDualFuzzyHash::from_raw_form(&r))?)
        }
    })
}

fn same(a: &Obj, b: &Obj) -> Result<bool, String> {
    Ok(match (a, b) {
        (Obj::R(x), Obj::R(y)) => must("full_eq", || x.full_eq(y))?,
        (Obj::LR(x), Obj::LR(y)) => must("full_eq", || x.full_eq(y))?,
        (Obj::N(x), Obj::N(y)) => must("full_eq", || x.full_eq(y))?,
        (Obj::LN(x), Obj::LN(y)) => must("full_eq", || x.full_eq(y))?,
        (Obj::D(x), Obj::D(y)) => x == y && must("full_eq", || x.to_raw_form().full_eq(&y.to_raw_form()))?,
        (Obj::LD(x), Obj::LD(y)) => x == y && must("full_eq", || x.to_raw_form().full_eq(&y.to_raw_form()))?,
        _ => false,
    })
}

fn valid(o: &Obj) -> Result<bool, String> {
    must("is_valid", || match o {
        Obj::R(x) => x.is_valid(),
        Obj::LR(x) => x.is_valid(),
        Obj::N(x) => x.is_valid(),
        Obj::LN(x) => x.is_valid(),
        Obj::D(x) => x.is_valid(),
        Obj::LD(x) => x.is_valid(),
    })
}

fn text(o: &Obj) -> Result<String, String> {
    must("to_string", || match o {
        Obj::R(x) => x.to_string(),
        Obj::LR(x) => x.to_string(),
        Obj::N(x) => x.to_string(),
        Obj::LN(x) => x.to_string(),
        Obj::D(x) => x.to_raw_form_string(),
        Obj::LD(x) => x.to_raw_form_string(),
    })
}

/// destination of type `ty` that still holds `dirt` (fitted to the type)
fn dirty(ty: Ty, dirt: &RawH, use_dirt: bool) -> Result<Obj, String> {
    let mut d = if use_dirt { dirt.clone() } else { RawH { log: 0, bh1: vec![], bh2: vec![] } };
    if !ty.is_long() {
        d.bh2.truncate(32);
    }
    if ty.is_norm() {
        d = d.collapsed();
    }
    build(&Abs { ty, h: d })
}

/// one conversion step: returns (name, new object, new abstract value) or a documented failure
/// (name, None) that must leave everything as it was.
#[allow(clippy::type_complexity)]
fn step(o: &Obj, abs: &Abs, sel: u8, use_dirt: bool, dirt: &RawH) -> Result<(&'static str, Obj, Abs), String> {
    let raw = abs.h.clone();
    let col = abs.h.collapsed();
    let fits_short = abs.h.bh2.len() <= 32;
    let a = |ty: Ty, h: &RawH| Abs { ty, h: h.clone() };
    macro_rules! narrowing {
        ($name:expr, $x:expr, $destty:expr, $variant:path, $content:expr) => {{
            let mut dest = match dirty($destty, dirt, use_dirt)? {
                $variant(d) => d,
                _ => unreachable!(),
            };
            let before = dest;
            let r = must($name, || $x.try_into_mut_short(&mut dest))?;
            if fits_short {
                ensure_eq!(r, Ok(()), "{} must succeed (block hash 2 has {} symbols)", $name, abs.h.bh2.len());
                return Ok(($name, $variant(dest), a($destty, $content)));
            } else {
                ensure_eq!(r, Err(FuzzyHashOperationError::BlockHashOverflow), "{} must fail (block hash 2 has {} symbols)", $name, abs.h.bh2.len());
                ensure!(must("full_eq", || dest.full_eq(&before))?, "{} failed but modified its destination", $name);
                return Ok(("narrowing refused", o.clone(), abs.clone()));
            }
        }};
    }
    match o {
        Obj::R(x) => match sel % 12 {
            0 => Ok(("to_long_form", Obj::LR(must("to_long_form", || x.to_long_form())?), a(Ty::LR, &raw))),
            1 => Ok(("LongRaw::from_short_form", Obj::LR(must("from_short_form", || LongRawFuzzyHash::from_short_form(x))?), a(Ty::LR, &raw))),
            2 => Ok(("LongRaw::from(short)", Obj::LR(must("From", || LongRawFuzzyHash::from(*x))?), a(Ty::LR, &raw))),
            3 => {
                let mut dest = match dirty(Ty::LR, dirt, use_dirt)? { Obj::LR(d) => d, _ => unreachable!() };
                must("into_mut_long_form", || x.into_mut_long_form(&mut dest))?;
                Ok(("into_mut_long_form", Obj::LR(dest), a(Ty::LR, &raw)))
            }
            4 => Ok(("normalize", Obj::N(must("normalize", || x.normalize())?), a(Ty::N, &col))),
            5 => Ok(("FuzzyHash::from(raw)", Obj::N(must("From", || FuzzyHash::from(*x))?), a(Ty::N, &col))),
            6 => Ok(("FuzzyHash::from_raw_form", Obj::N(must("from_raw_form", || FuzzyHash::from_raw_form(x))?), a(Ty::N, &col))),
            7 => Ok(("clone_normalized", Obj::R(must("clone_normalized", || x.clone_normalized())?), a(Ty::R, &col))),
            8 => {
                let mut y = *x;
                must("normalize_in_place", || y.normalize_in_place())?;
                Ok(("normalize_in_place", Obj::R(y), a(Ty::R, &col)))
            }
            9 => Ok(("DualFuzzyHash::from_raw_form", Obj::D(must("from_raw_form", || DualFuzzyHash::from_raw_form(x))?), a(Ty::D, &raw))),
            10 => Ok(("DualFuzzyHash::from(raw)", Obj::D(must("From", || DualFuzzyHash::from(*x))?), a(Ty::D, &raw))),
            _ => {
                let mut dest = match dirty(Ty::D, dirt, use_dirt)? { Obj::D(d) => d, _ => unreachable!() };
                must("init_from_raw_form", || dest.init_from_raw_form(x))?;
                Ok(("init_from_raw_form", Obj::D(dest), a(Ty::D, &raw)))
            }
        },
        Obj::LR(x) => match sel % 9 {
            0 => narrowing!("LongRaw::try_into_mut_short", x, Ty::R, Obj::R, &raw),
            1 => {
                let r = must("RawFuzzyHash::try_from", || RawFuzzyHash::try_from(*x))?;
                if fits_short {
                    match r {
                        Ok(y) => Ok(("RawFuzzyHash::try_from(long)", Obj::R(y), a(Ty::R, &raw))),
                        Err(e) => Err(format!("RawFuzzyHash::try_from(long) failed with {:?} although block hash 2 has {} symbols", e, raw.bh2.len())),
                    }
                } else {
                    ensure!(matches!(r, Err(FuzzyHashOperationError::BlockHashOverflow)), "RawFuzzyHash::try_from(long) must fail (block hash 2 has {} symbols)", raw.bh2.len());
                    Ok(("narrowing refused", o.clone(), abs.clone()))
                }
            }
            2 => Ok(("normalize", Obj::LN(must("normalize", || x.normalize())?), a(Ty::LN, &col))),
            3 => Ok(("LongFuzzyHash::from(raw)", Obj::LN(must("From", || LongFuzzyHash::from(*x))?), a(Ty::LN, &col))),
            4 => Ok(("LongFuzzyHash::from_raw_form", Obj::LN(must("from_raw_form", || LongFuzzyHash::from_raw_form(x))?), a(Ty::LN, &col))),
            5 => Ok(("clone_normalized", Obj::LR(must("clone_normalized", || x.clone_normalized())?), a(Ty::LR, &col))),
            6 => {
                let mut y = *x;
                must("normalize_in_place", || y.normalize_in_place())?;
                Ok(("normalize_in_place", Obj::LR(y), a(Ty::LR, &col)))
            }
            7 => Ok(("LongDualFuzzyHash::from_raw_form", Obj::LD(must("from_raw_form", || LongDualFuzzyHash::from_raw_form(x))?), a(Ty::LD, &raw))),
            _ => {
                let mut dest = match dirty(Ty::LD, dirt, use_dirt)? { Obj::LD(d) => d, _ => unreachable!() };
                must("init_from_raw_form", || dest.init_from_raw_form(x))?;
                Ok(("init_from_raw_form", Obj::LD(dest), a(Ty::LD, &raw)))
            }
        },
        Obj::N(x) => match sel % 12 {
            0 => Ok(("to_raw_form", Obj::R(must("to_raw_form", || x.to_raw_form())?), a(Ty::R, &raw))),
            1 => {
                let mut dest = match dirty(Ty::R, dirt, use_dirt)? { Obj::R(d) => d, _ => unreachable!() };
                must("into_mut_raw_form", || x.into_mut_raw_form(&mut dest))?;
                Ok(("into_mut_raw_form", Obj::R(dest), a(Ty::R, &raw)))
            }
            2 => Ok(("RawFuzzyHash::from(norm)", Obj::R(must("From", || RawFuzzyHash::from(*x))?), a(Ty::R, &raw))),
            3 => Ok(("RawFuzzyHash::from_normalized", Obj::R(must("from_normalized", || RawFuzzyHash::from_normalized(x))?), a(Ty::R, &raw))),
            4 => Ok(("to_long_form", Obj::LN(must("to_long_form", || x.to_long_form())?), a(Ty::LN, &raw))),
            5 => Ok(("LongFuzzyHash::from(short)", Obj::LN(must("From", || LongFuzzyHash::from(*x))?), a(Ty::LN, &raw))),
            6 => {
                let mut dest = match dirty(Ty::LN, dirt, use_dirt)? { Obj::LN(d) => d, _ => unreachable!() };
                must("into_mut_long_form", || x.into_mut_long_form(&mut dest))?;
                Ok(("into_mut_long_form", Obj::LN(dest), a(Ty::LN, &raw)))
            }
            7 => Ok(("LongRawFuzzyHash::from(short norm)", Obj::LR(must("From", || LongRawFuzzyHash::from(*x))?), a(Ty::LR, &raw))),
            8 => Ok(("DualFuzzyHash::from_normalized", Obj::D(must("from_normalized", || DualFuzzyHash::from_normalized(x))?), a(Ty::D, &raw))),
            9 => Ok(("DualFuzzyHash::from(norm)", Obj::D(must("From", || DualFuzzyHash::from(*x))?), a(Ty::D, &raw))),
            10 => Ok(("normalize (norm)", Obj::N(must("normalize", || x.normalize())?), a(Ty::N, &raw))),
            _ => Ok(("LongFuzzyHash::from_short_form", Obj::LN(must("from_short_form", || LongFuzzyHash::from_short_form(x))?), a(Ty::LN, &raw))),
        },
        Obj::LN(x) => match sel % 7 {
            0 => narrowing!("LongNorm::try_into_mut_short", x, Ty::N, Obj::N, &raw),
            1 => {
                let r = must("FuzzyHash::try_from", || FuzzyHash::try_from(*x))?;
                if fits_short {
                    match r {
                        Ok(y) => Ok(("FuzzyHash::try_from(long)", Obj::N(y), a(Ty::N, &raw))),
                        Err(e) => Err(format!("FuzzyHash::try_from(long) failed with {:?} although block hash 2 has {} symbols", e, raw.bh2.len())),
                    }
                } else {
                    ensure!(matches!(r, Err(FuzzyHashOperationError::BlockHashOverflow)), "FuzzyHash::try_from(long) must fail (block hash 2 has {} symbols)", raw.bh2.len());
                    Ok(("narrowing refused", o.clone(), abs.clone()))
                }
            }
            2 => Ok(("to_raw_form", Obj::LR(must("to_raw_form", || x.to_raw_form())?), a(Ty::LR, &raw))),
            3 => {
                let mut dest = match dirty(Ty::LR, dirt, use_dirt)? { Obj::LR(d) => d, _ => unreachable!() };
                must("into_mut_raw_form", || x.into_mut_raw_form(&mut dest))?;
                Ok(("into_mut_raw_form", Obj::LR(dest), a(Ty::LR, &raw)))
            }
            4 => Ok(("LongRawFuzzyHash::from(norm)", Obj::LR(must("From", || LongRawFuzzyHash::from(*x))?), a(Ty::LR, &raw))),
            5 => Ok(("LongDualFuzzyHash::from_normalized", Obj::LD(must("from_normalized", || LongDualFuzzyHash::from_normalized(x))?), a(Ty::LD, &raw))),
            _ => Ok(("clone_normalized (norm)", Obj::LN(must("clone_normalized", || x.clone_normalized())?), a(Ty::LN, &raw))),
        },
        Obj::D(x) => match sel % 5 {
            0 => Ok(("dual.to_raw_form", Obj::R(must("to_raw_form", || x.to_raw_form())?), a(Ty::R, &raw))),
            1 => {
                let mut dest = match dirty(Ty::R, dirt, use_dirt)? { Obj::R(d) => d, _ => unreachable!() };
                must("into_mut_raw_form", || x.into_mut_raw_form(&mut dest))?;
                Ok(("dual.into_mut_raw_form", Obj::R(dest), a(Ty::R, &raw)))
            }
            2 => Ok(("dual.to_normalized", Obj::N(must("to_normalized", || x.to_normalized())?), a(Ty::N, &col))),
            3 => Ok(("dual.as_normalized", Obj::N(*x.as_normalized()), a(Ty::N, &col))),
            _ => {
                let mut y = *x;
                must("normalize_in_place", || y.normalize_in_place())?;
                Ok(("dual.normalize_in_place", Obj::D(y), a(Ty::D, &col)))
            }
        },
        Obj::LD(x) => match sel % 5 {
            0 => Ok(("dual.to_raw_form", Obj::LR(must("to_raw_form", || x.to_raw_form())?), a(Ty::LR, &raw))),
            1 => {
                let mut dest = match dirty(Ty::LR, dirt, use_dirt)? { Obj::LR(d) => d, _ => unreachable!() };
                must("into_mut_raw_form", || x.into_mut_raw_form(&mut dest))?;
                Ok(("dual.into_mut_raw_form", Obj::LR(dest), a(Ty::LR, &raw)))
            }
            2 => Ok(("dual.to_normalized", Obj::LN(must("to_normalized", || x.to_normalized())?), a(Ty::LN, &col))),
            3 => Ok(("dual.as_normalized", Obj::LN(*x.as_normalized()), a(Ty::LN, &col))),
            _ => {
                let mut y = *x;
                must("normalize_in_place", || y.normalize_in_place())?;
                Ok(("dual.normalize_in_place", Obj::LD(y), a(Ty::LD, &col)))
            }
        },
    }
}

pub fn eval(case: &Case, st: &mut Stats) -> Result<(), String> {
    let ty = [Ty::R, Ty::LR, Ty::N, Ty::LN, Ty::D, Ty::LD][case.start_ty as usize % 6];
    let mut h = case.start.clone();
    if !ty.is_long() {
        h.bh2.truncate(32);
    }
    if ty.is_norm() {
        h = h.collapsed();
    }
    let mut abs = Abs { ty, h };
    let start_text = abs.h.text();
    let start_col = abs.h.collapsed().text();
    let mut obj = build(&abs)?;
    let mut trace: Vec<&'static str> = Vec::new();
    let mut narrowing_or_dirty = false;
    for &(sel, use_dirt) in &case.chain {
        let before = abs.clone();
        let (name, o2, a2) = step(&obj, &abs, sel, use_dirt, &case.dirt).map_err(|m| format!("{} (after {:?}, value {})", m, trace, before.h.text()))?;
        trace.push(name);
        st.class(&format!("op:{}", name));
        if name.contains("try_") || name == "narrowing refused" || (use_dirt && (name.contains("into_mut") || name.contains("init_from"))) {
            narrowing_or_dirty = true;
        }
        ensure!(valid(&o2)?, "result of {} is not valid (chain {:?}, from {})", name, trace, before.h.text());
        let direct = build(&a2)?;
        ensure!(
            same(&o2, &direct)?,
            "result of {} is not identical to the object built directly from the expected content {} (chain {:?}, from {}); got {}",
            name,
            a2.h.text(),
            trace,
            before.h.text(),
            text(&o2)?
        );
        obj = o2;
        abs = a2;
    }
    let t = text(&obj)?;
    ensure!(t == start_text || t == start_col, "text after the chain {:?} is {} - neither the source text {} nor its run-collapsed form", trace, t, start_text);
    // widen o narrow = id, narrow o widen = id (when it fits)
    if let Obj::R(x) = &obj {
        let back = must("try_from(to_long_form)", || RawFuzzyHash::try_from(x.to_long_form()))?;
        ensure!(matches!(back, Ok(b) if b.full_eq(x)), "narrow(widen(x)) != x for {}", t);
    }
    if let Obj::N(x) = &obj {
        let back = must("try_from(to_long_form)", || FuzzyHash::try_from(x.to_long_form()))?;
        ensure!(matches!(back, Ok(b) if b.full_eq(x)), "narrow(widen(x)) != x for {}", t);
    }
    if case.chain.len() >= 2 && narrowing_or_dirty {
        st.nontrivial(oracle::fingerprint(format!("{}|{:?}|{:?}", start_text, case.start_ty % 6, case.chain).as_bytes()));
    }
    st.class(&format!("chain_len={}", case.chain.len().min(8)));
    Ok(())
}

pub fn strategy() -> impl Strategy<Value = Case> {
    (
        prop_oneof![2 => gens::raw_hash(64), 1 => gens::raw_hash(32)],
        0u8..6,
        proptest::collection::vec((any::<u8>(), any::<bool>()), 0..=8),
        gens::raw_hash(64),
    )
        .prop_map(|(start, start_ty, chain, dirt)| Case {
            start,
            start_ty,
            chain,
            dirt,
        })
}

pub fn subchecks(tier: Tier) -> Vec<SubCheck> {
    vec![generated(
        "conversion_chains",
        "start object of any of the six types + a chain of <= 8 conversions over the whole conversion graph (to_/from_/into_mut_/try_into_mut_/From/TryFrom/normalize*/dual routes), destinations fresh or still holding another hash; after every step the object is valid and full_eq the object built directly from the abstract value (block size, symbols; collapsed once a normalising edge was taken); narrowing fails exactly when block hash 2 > 32 and leaves its destination untouched; final text = source text or its run-collapsed form; non-trivial = chain >= 2 with a narrowing or a dirty destination; distinct by (start, chain)",
        tier.pick(1_200_000, 12_000_000),
        strategy,
        eval,
    )]
}
