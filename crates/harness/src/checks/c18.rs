//! C18 - stream and file hashing fail closed under I/O faults.

use crate::engine::{enumerated, generated, must, Stats, SubCheck, Tier};
use crate::gens::{self, Prog};
use oracle::words::SplitMix;
use proptest::prelude::*;
use serde::{Deserialize, Serialize};
use serde_json::json;
use ssdeep::{GeneratorError, GeneratorOrIOError};
use std::io::{ErrorKind, Read};
use std::sync::atomic::{AtomicU64, Ordering};

pub const KINDS: [ErrorKind; 12] = [
    ErrorKind::Interrupted,
    ErrorKind::WouldBlock,
    ErrorKind::UnexpectedEof,
    ErrorKind::Other,
    ErrorKind::BrokenPipe,
    ErrorKind::TimedOut,
    ErrorKind::PermissionDenied,
    ErrorKind::InvalidData,
    ErrorKind::ConnectionReset,
    ErrorKind::NotFound,
    ErrorKind::InvalidInput,
    ErrorKind::WriteZero,
];

pub struct FaultReader<'a> {
    pub data: &'a [u8],
    pub pos: usize,
    pub sizes: &'a [u32],
    pub reads: u64,
    pub fault_at: Option<u64>,
    pub kind: ErrorKind,
    pub faulted: bool,
    pub delivered_nonempty_before_fault: bool,
}

/// payload of the injected error: "that I/O error" means the caller gets this very object back
#[derive(Debug)]
pub struct Injected(pub u64);
impl std::fmt::Display for Injected {
    fn fmt(&self, f: &mut std::fmt::Formatter<'_>) -> std::fmt::Result {
        write!(f, "injected fault at read {}", self.0)
    }
}
impl std::error::Error for Injected {}

impl Read for FaultReader<'_> {
    fn read(&mut self, buf: &mut [u8]) -> std::io::Result<usize> {
        let idx = self.reads;
        self.reads += 1;
        if Some(idx) == self.fault_at {
            self.faulted = true;
            self.delivered_nonempty_before_fault = self.pos > 0;
            // every third fault is an OS-style error (raw code), the others carry a custom payload
            if idx % 3 == 2 {
                return Err(std::io::Error::from_raw_os_error(5));
            }
            return Err(std::io::Error::new(self.kind, Injected(idx)));
        }
        if self.pos >= self.data.len() || buf.is_empty() {
            return Ok(0);
        }
        let want = if self.sizes.is_empty() { buf.len() } else { (self.sizes[idx as usize % self.sizes.len()] as usize).max(1) };
        let n = want.min(buf.len()).min(self.data.len() - self.pos);
        buf[..n].copy_from_slice(&self.data[self.pos..self.pos + n]);
        self.pos += n;
        Ok(n)
    }
}

pub fn run_reader(data: &[u8], sizes: &[u32], fault_at: Option<u64>, kind: ErrorKind, st: &mut Stats) -> Result<(), String> {
    let mut rd = FaultReader { data, pos: 0, sizes, reads: 0, fault_at, kind, faulted: false, delivered_nonempty_before_fault: false };
    let r = must("hash_stream", || ssdeep::hash_stream(&mut rd))?;
    if rd.faulted {
        match r {
            Err(GeneratorOrIOError::IOError(e)) => {
                let idx = fault_at.unwrap();
                if idx % 3 == 2 {
                    ensure_eq!(e.raw_os_error(), Some(5), "hash_stream: the OS error code of the failed read {} is not handed back", idx);
                } else {
                    ensure_eq!(e.kind(), kind, "hash_stream: kind of the returned I/O error (fault at read {:?})", fault_at);
                    let same = e.get_ref().and_then(|r| r.downcast_ref::<Injected>()).map(|i| i.0);
                    ensure_eq!(same, Some(idx), "hash_stream: the error of the failed read {} is not handed back as it was (payload)", idx);
                }
            }
            Err(GeneratorOrIOError::GeneratorError(e)) => {
                return Err(format!("hash_stream returned a generator error {:?} instead of the injected I/O error {:?} (fault at read {:?})", e, kind, fault_at))
            }
            Ok(h) => return Err(format!("hash_stream returned a hash ({}) although read {} failed with {:?}", h, fault_at.unwrap(), kind)),
        }
        st.class(&format!("fault:{:?}", kind));
        if rd.delivered_nonempty_before_fault {
            st.class("fault_after_data");
        } else {
            st.class("fault_before_data");
        }
    } else {
        let exp = must("hash_buf", || ssdeep::hash_buf(data))?.map_err(|e| format!("hash_buf failed: {:?}", e))?;
        match r {
            Ok(h) => ensure_eq!(h.to_string(), exp.to_string(), "hash_stream without a fault vs hash_buf of the delivered bytes ({} bytes, read sizes {:?}...)", data.len(), &sizes[..sizes.len().min(6)]),
            Err(e) => return Err(format!("hash_stream failed ({}) although no read failed", e)),
        }
        ensure_eq!(rd.pos, data.len(), "hash_stream stopped reading before the end of the stream");
        st.class("no_fault");
    }
    Ok(())
}

#[derive(Debug, Clone, Serialize, Deserialize)]
pub struct Case {
    pub prog: Prog,
    pub sizes: Vec<u32>,
    pub fault: Option<(u16, u8)>,
}

pub fn eval(case: &Case, st: &mut Stats) -> Result<(), String> {
    let data = case.prog.render();
    // how many reads a complete run takes (to place the fault inside it)
    let mut probe = FaultReader { data: &data, pos: 0, sizes: &case.sizes, reads: 0, fault_at: None, kind: ErrorKind::Other, faulted: false, delivered_nonempty_before_fault: false };
    let mut buf = vec![0u8; 32768];
    while probe.read(&mut buf).unwrap_or(0) > 0 {}
    let total_reads = probe.reads;
    let (fault_at, kind) = match case.fault {
        None => (None, ErrorKind::Other),
        Some((f, k)) => (Some(((f as u64) * (total_reads + 1)) >> 16), KINDS[k as usize % KINDS.len()]),
    };
    run_reader(&data, &case.sizes, fault_at, kind, st)?;
    if let Some(f) = fault_at {
        if f > 0 && f < total_reads {
            st.nontrivial(oracle::fingerprint(format!("{:?}", case).as_bytes()));
        }
        st.class(if data.len() > 32768 { "data>32Ki" } else { "data<=32Ki" });
    }
    Ok(())
}

fn read_sizes() -> impl Strategy<Value = Vec<u32>> {
    prop_oneof![
        1 => Just(vec![]),
        2 => proptest::collection::vec(1u32..=9, 1..6),
        3 => proptest::collection::vec(prop_oneof![1u32..=9, 1u32..=40000, Just(32768u32), Just(32767u32)], 1..8),
    ]
}

pub fn strategy(wt: u64, tier: Tier) -> impl Strategy<Value = Case> {
    let max_n = tier.pick(160u32 << 10, 256u32 << 10);
    (
        prop_oneof![3 => gens::prog_mix(wt, max_n, 9), 1 => gens::prog_uniform(wt, 70000)],
        read_sizes(),
        prop::option::weighted(0.7, (any::<u16>(), any::<u8>())),
    )
        .prop_map(|(prog, sizes, fault)| Case { prog, sizes, fault })
}

/// systematic: (length, schedule, error kind, fault index) - every read index gets a fault
fn sweep_case(i: u64) -> (usize, Vec<u32>, ErrorKind, u64, &'static str) {
    const LENS: [usize; 8] = [0, 1, 7, 32767, 32768, 32769, 65536, 100000];
    let per_len = 4 * 6 * 48u64; // schedules x kinds x fault indices
    let len = LENS[(i / per_len) as usize % LENS.len()];
    let r = i % per_len;
    let sched = (r / (6 * 48)) as usize;
    let kind = [ErrorKind::Interrupted, ErrorKind::WouldBlock, ErrorKind::UnexpectedEof, ErrorKind::Other, ErrorKind::BrokenPipe, ErrorKind::TimedOut][((r / 48) % 6) as usize];
    let fidx = r % 48;
    let (sizes, name): (Vec<u32>, &'static str) = match sched {
        0 => (vec![], "full_reads"),
        1 => (vec![8191], "reads_of_8191"),
        2 => {
            let mut rng = SplitMix(len as u64 ^ 0xC18);
            ((0..16).map(|_| 1 + (rng.next() % 9000) as u32).collect(), "random_reads")
        }
        _ => {
            // one-byte reads first, then full reads
            let mut v = vec![1u32; 40];
            v.extend([32768u32; 8]);
            (v, "one_byte_then_full")
        }
    };
    (len, sizes, kind, fidx, name)
}

fn sweep() -> SubCheck {
    enumerated(
        "fault_position_sweep",
        "data lengths {0, 1, 7, 32767, 32768, 32769, 65536, 100000} x 4 read schedules (full reads, 8191-byte reads, random sizes, one-byte reads then full reads) x 6 error kinds x a fault at every read index 0..47 (indices past the end of the stream exercise the no-fault path); oracle: fault => Err(IOError(kind)), never a hash; no fault => hash_buf of the delivered bytes; non-trivial = fault after at least one delivered byte; distinct by construction",
        8 * 4 * 6 * 48,
        true,
        |i| {
            let (len, sizes, kind, f, name) = sweep_case(i);
            json!({"len": len, "schedule": name, "sizes": sizes, "kind": format!("{:?}", kind), "fault_at_read": f})
        },
        |lo, hi, st: &mut Stats| {
            for i in lo..hi {
                let (len, sizes, kind, f, name) = sweep_case(i);
                let mut rng = SplitMix(len as u64 * 31 + 7);
                let mut data = vec![0u8; len];
                rng.fill(&mut data);
                let before = st.classes.get("fault_after_data").copied().unwrap_or(0);
                run_reader(&data, &sizes, Some(f), kind, st).map_err(|m| (i, m))?;
                st.count(1);
                st.class(name);
                if st.classes.get("fault_after_data").copied().unwrap_or(0) > before {
                    st.nontrivial_distinct(1);
                }
            }
            Ok(())
        },
    )
}

// ---- files ---------------------------------------------------------------------------------

static TMP_COUNTER: AtomicU64 = AtomicU64::new(0);

fn tmp_path(tag: &str) -> std::path::PathBuf {
    let n = TMP_COUNTER.fetch_add(1, Ordering::Relaxed);
    std::env::temp_dir().join(format!("ffv-c18-{}-{}-{}", std::process::id(), tag, n))
}

#[derive(Debug, Clone, Serialize, Deserialize)]
pub struct FileCase {
    /// 0 regular file, 1 missing, 2 directory, 3 fifo, 4 procfs/sysfs entry
    pub kind: u8,
    pub prog: Prog,
    pub pick: u8,
}

const PSEUDO_FILES: [&str; 18] = [
    "/proc/self/status",
    "/proc/cpuinfo",
    "/proc/meminfo",
    "/proc/self/maps",
    "/proc/version",
    "/proc/self/cmdline",
    "/sys/kernel/mm/transparent_hugepage/enabled",
    "/sys/devices/system/cpu/online",
    "/proc/uptime",
    "/proc/self/stat",
    // sysfs attributes that announce a page and deliver nothing at all, or a few bytes
    "/sys/power/state",
    "/sys/kernel/slab/kmalloc-8/ctor",
    "/sys/kernel/slab/kmalloc-64/ctor",
    "/sys/kernel/slab/dentry/ctor",
    "/sys/module/kernel/parameters/panic",
    "/sys/class/net/lo/mtu",
    "/sys/block/vda/size",
    "/sys/kernel/uevent_helper",
];

pub fn eval_file(case: &FileCase, st: &mut Stats) -> Result<(), String> {
    match case.kind % 5 {
        0 => {
            let data = case.prog.render();
            let p = tmp_path("reg");
            std::fs::write(&p, &data).map_err(|e| format!("HARNESS-PANIC: cannot write temp file: {}", e))?;
            let r = must("hash_file", || ssdeep::hash_file(&p));
            let _ = std::fs::remove_file(&p);
            let r = r?;
            let exp = ssdeep::hash_buf(&data).map_err(|e| format!("hash_buf failed: {:?}", e))?;
            match r {
                Ok(h) => ensure_eq!(h.to_string(), exp.to_string(), "hash_file of a regular file of {} bytes vs hash_buf", data.len()),
                Err(e) => return Err(format!("hash_file of a regular file failed: {}", e)),
            }
            st.class("file:regular");
            if data.len() > 32768 {
                st.nontrivial(oracle::fingerprint(&data));
            }
        }
        1 => {
            let p = tmp_path("missing");
            let r = must("hash_file", || ssdeep::hash_file(&p))?;
            match r {
                Err(GeneratorOrIOError::IOError(e)) => ensure_eq!(e.kind(), ErrorKind::NotFound, "hash_file of a missing path: error kind"),
                other => return Err(format!("hash_file of a missing path returned {:?}", other.map(|h| h.to_string()))),
            }
            st.class("file:missing");
        }
        2 => {
            let p = tmp_path("dir");
            std::fs::create_dir_all(&p).map_err(|e| format!("HARNESS-PANIC: cannot create temp dir: {}", e))?;
            let r = must("hash_file", || ssdeep::hash_file(&p));
            let _ = std::fs::remove_dir(&p);
            match r? {
                Err(_) => {}
                Ok(h) => return Err(format!("hash_file of a directory returned a hash: {}", h)),
            }
            st.class("file:directory");
        }
        3 => {
            // FIFO: metadata reports size 0; a writer thread delivers k bytes
            let data = case.prog.render();
            // below the pipe capacity, so that the writer can never block on a reader that does not come
            let k = data.len().min(60000);
            let data = data[..k].to_vec();
            let p = tmp_path("fifo");
            let c = std::ffi::CString::new(p.to_str().unwrap()).unwrap();
            let rc = unsafe { libc::mkfifo(c.as_ptr(), 0o600) };
            if rc != 0 {
                // no FIFOs in this temp directory: nothing to judge
                st.class("file:fifo_unavailable");
                return Ok(());
            }
            let p2 = p.clone();
            let d2 = data.clone();
            // The writer's open blocks until a reader (the library) has opened the FIFO, then it delivers
            // the bytes and closes, which is the end-of-file for the reader.
            let writer = std::thread::spawn(move || {
                use std::io::Write;
                if let Ok(mut f) = std::fs::OpenOptions::new().write(true).open(&p2) {
                    let _ = f.write_all(&d2);
                }
            });
            let r = must("hash_file", || ssdeep::hash_file(&p));
            // should the library never have opened the file, release the writer (a non-blocking reader
            // lets its open complete; the payload fits into the pipe buffer) so that the join cannot hang
            let unblock = {
                use std::os::unix::fs::OpenOptionsExt;
                std::fs::OpenOptions::new().read(true).custom_flags(libc::O_NONBLOCK).open(&p)
            };
            let _ = writer.join();
            drop(unblock);
            let _ = std::fs::remove_file(&p);
            let r = r?;
            if k > 0 {
                match r {
                    Err(GeneratorOrIOError::GeneratorError(GeneratorError::FixedSizeMismatch)) => {}
                    Err(e) => return Err(format!("hash_file of a FIFO delivering {} bytes (metadata says 0): unexpected error {}", k, e)),
                    Ok(h) => return Err(format!("hash_file of a FIFO delivering {} bytes although its metadata says 0 returned a hash: {}", k, h)),
                }
                st.class("file:fifo_lying_size");
                st.nontrivial(oracle::fingerprint(&data) ^ 0xF1F0);
            } else {
                match r {
                    Ok(h) => ensure_eq!(h.to_string(), "3::", "hash_file of an empty FIFO"),
                    Err(e) => return Err(format!("hash_file of an empty FIFO failed: {}", e)),
                }
                st.class("file:fifo_empty");
            }
        }
        _ => {
            let path = PSEUDO_FILES[case.pick as usize % PSEUDO_FILES.len()];
            let meta = match std::fs::metadata(path) {
                Ok(m) => m,
                Err(_) => {
                    st.class("file:pseudo_absent");
                    return Ok(());
                }
            };
            let content = match std::fs::read(path) {
                Ok(c) => c,
                Err(_) => {
                    st.class("file:pseudo_unreadable");
                    return Ok(());
                }
            };
            let r = must("hash_file", || ssdeep::hash_file(path))?;
            if meta.len() != content.len() as u64 {
                // content may change between our read and the library's, but the length the
                // metadata reports (0 for procfs, a page for sysfs) never matches a non-empty read
                match r {
                    Err(_) => {}
                    Ok(h) => {
                        // tolerate only the case where the library's own read delivered exactly metadata-many bytes
                        let again = std::fs::read(path).map(|c| c.len() as u64).unwrap_or(u64::MAX);
                        if again != meta.len() {
                            return Err(format!("hash_file({}) returned a hash ({}) although metadata says {} bytes and the content has {}", path, h, meta.len(), content.len()));
                        }
                    }
                }
                st.class("file:pseudo_lying_size");
                if content.is_empty() {
                    st.class("file:pseudo_announces_bytes_delivers_none");
                }
                st.nontrivial(oracle::fingerprint(path.as_bytes()));
            } else {
                st.class("file:pseudo_consistent");
            }
        }
    }
    Ok(())
}

pub fn subchecks(tier: Tier) -> Vec<SubCheck> {
    let wt_seed = move || -> u64 {
        std::env::var("VERIF_SEED").ok().and_then(|s| s.trim().parse::<i128>().ok()).map(|v| v as u64).unwrap_or(0) ^ 0xC18
    };
    vec![
        sweep(),
        generated(
            "generated_readers",
            "reader = (byte program <= 160 KiB, read-size schedule with sizes 1..=40000 clamped to the buffer, optional fault (read index anywhere in the run, one of 12 error kinds incl. Interrupted and WouldBlock)); oracle: fault => Err(IOError(kind)), never Ok; no fault => hash_buf of the delivered bytes and the whole stream consumed; non-trivial = fault after >= 1 successful non-empty read; distinct by case",
            tier.pick(600_000, 6_000_000),
            move || strategy(wt_seed(), tier),
            eval,
        ),
        generated(
            "files",
            "hash_file on temp regular files (= hash_buf), missing paths (IOError NotFound), directories (error), FIFOs fed k bytes by a writer thread (metadata says 0: k > 0 => size-mismatch error, k = 0 => 3::), procfs / sysfs entries whose metadata size disagrees with their content (must be an error); non-trivial = lying metadata or a regular file longer than one buffer; distinct by content / path",
            tier.pick(6_000, 60_000),
            move || {
                let wt = wt_seed();
                (0u8..5, prop_oneof![2 => gens::prog_mix(wt, 100_000, 8), 1 => Just(Prog { wt, toks: vec![], target: None, pad_zeros: true, pad_seed: 0 })], any::<u8>())
                    .prop_map(|(kind, prog, pick)| FileCase { kind, prog, pick })
            },
            eval_file,
        ),
    ]
}
