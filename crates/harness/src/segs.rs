//! Inputs made of literal byte programs and (possibly huge) runs of zero bytes, fed to the
//! library through the cfg(a4lg_ffuzzy_verif) hook `Generator::verif_feed_zeroes`.

use crate::engine::must;
use crate::gens::Prog;
use oracle::gen::Seg;
use serde::{Deserialize, Serialize};
use ssdeep::Generator;

#[derive(Debug, Clone, Serialize, Deserialize, PartialEq)]
pub enum SegSpec {
    Prog(Prog),
    Zeros(u64),
}

pub enum OwnedSeg {
    Bytes(Vec<u8>),
    Zeros(u64),
}

pub fn render(specs: &[SegSpec]) -> Vec<OwnedSeg> {
    specs
        .iter()
        .map(|s| match s {
            SegSpec::Prog(p) => OwnedSeg::Bytes(p.render()),
            SegSpec::Zeros(z) => OwnedSeg::Zeros(*z),
        })
        .collect()
}

pub fn as_segs(owned: &[OwnedSeg]) -> Vec<Seg<'_>> {
    owned
        .iter()
        .map(|s| match s {
            OwnedSeg::Bytes(b) => Seg::Bytes(b),
            OwnedSeg::Zeros(z) => Seg::Zeros(*z),
        })
        .collect()
}

pub fn total_len(owned: &[OwnedSeg]) -> u64 {
    owned
        .iter()
        .map(|s| match s {
            OwnedSeg::Bytes(b) => b.len() as u64,
            OwnedSeg::Zeros(z) => *z,
        })
        .fold(0u64, |a, b| a.saturating_add(b))
}

/// feed one segment; `chunks` splits literal bytes into up to three update calls
pub fn feed_seg(g: &mut Generator, seg: &OwnedSeg, chunks: u8) -> Result<(), String> {
    match seg {
        OwnedSeg::Bytes(b) => {
            let k = (chunks % 3) as usize + 1;
            let step = b.len() / k + 1;
            for c in b.chunks(step.max(1)) {
                must("update", || {
                    g.update(c);
                })?;
            }
            Ok(())
        }
        OwnedSeg::Zeros(z) => must("verif_feed_zeroes", || {
            g.verif_feed_zeroes(*z);
        }),
    }
}
