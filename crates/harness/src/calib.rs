//! Calibration of the oracles against data that did not come from the implementation under
//! test: libfuzzy's own golden vectors, the 96 GiB vectors, documented comparison scores.
//! A mismatch here is a fault of the harness (exit 2), never a VIOLATION.

use oracle::fmt::{collapse, format_hash};
use oracle::gen::{model_a, model_b};
use serde_json::{json, Value};

pub fn calibrate_gen() -> Result<Value, String> {
    let list = "/repo/ffuzzy/data/testsuite/generate-small.ssdeep.txt";
    let text = std::fs::read_to_string(list).map_err(|e| format!("cannot read {}: {}", list, e))?;
    let mut vectors = 0u64;
    for line in text.lines() {
        let line = line.trim();
        if line.is_empty() || line.starts_with('#') {
            continue;
        }
        let parts: Vec<&str> = line.split_whitespace().collect();
        if parts.len() != 3 {
            continue;
        }
        let flags: u32 = match parts[1].parse() {
            Ok(f) => f,
            Err(_) => continue,
        };
        let path = format!("/repo/ffuzzy/{}", parts[0]);
        let data = std::fs::read(&path).map_err(|e| format!("cannot read {}: {}", path, e))?;
        let (a, _) = model_a(0, &data).map_err(|e| format!("model A error {:?} on {}", e, path))?;
        let (b, _) = model_b(0, &data, None).map_err(|e| format!("model B error {:?} on {}", e, path))?;
        let (bf, _) = model_b(0, &data, Some(data.len() as u64))
            .map_err(|e| format!("model B (fixed) error {:?} on {}", e, path))?;
        if a != b || a != bf {
            return Err(format!("model A != model B on {}: {:?} vs {:?} vs {:?}", path, a, b, bf));
        }
        let norm = flags & 4 != 0;
        let f = |bh: &Vec<u8>| if norm { collapse(bh) } else { bh.clone() };
        if flags & 1 != 0 {
            let got = format_hash(a.log, &f(&a.bh1), &f(&a.bh2_trunc));
            if got != parts[2] {
                return Err(format!("golden vector mismatch (truncated) {}: model {} expected {}", path, got, parts[2]));
            }
            vectors += 1;
        }
        if flags & 2 != 0 {
            let got = format_hash(a.log, &f(&a.bh1), &f(&a.bh2_full));
            if got != parts[2] {
                return Err(format!("golden vector mismatch (long) {}: model {} expected {}", path, got, parts[2]));
            }
            vectors += 1;
        }
    }
    if vectors < 400 {
        return Err(format!("only {} golden vectors found", vectors));
    }
    // the two 96 GiB vectors quoted in generate/tests.rs (SHA-256 documented there; produced by libfuzzy)
    let mut tail: Vec<u8> = Vec::new();
    for _ in 0..64 {
        tail.extend_from_slice(b"`]]]_CT");
    }
    let z = 96u64 * 1024 * 1024 * 1024 - 7 * 64;
    let i64s = "i".repeat(64);
    for (model, name) in [(0, "A"), (1, "B")] {
        let run = |d: &[u8]| {
            if model == 0 {
                model_a(z, d).map(|x| x.0)
            } else {
                model_b(z, d, None).map(|x| x.0)
            }
        };
        let o = run(&tail).map_err(|e| format!("{:?}", e))?;
        let long = format_hash(o.log, &o.bh1, &o.bh2_full);
        let short = format_hash(o.log, &o.bh1, &o.bh2_trunc);
        let exp_long = format!("1610612736:{}:{}", i64s, i64s);
        let exp_short = format!("1610612736:{}:{}C", i64s, "i".repeat(31));
        if long != exp_long || short != exp_short {
            return Err(format!("96 GiB vector 1 mismatch in model {}: {} / {}", name, long, short));
        }
        let mut t2 = tail.clone();
        t2.push(1);
        let o = run(&t2).map_err(|e| format!("{:?}", e))?;
        let exp = format!("3221225472:{}H:k", "i".repeat(63));
        if format_hash(o.log, &o.bh1, &o.bh2_full) != exp || format_hash(o.log, &o.bh1, &o.bh2_trunc) != exp {
            return Err(format!(
                "96 GiB vector 2 mismatch in model {}: {}",
                name,
                format_hash(o.log, &o.bh1, &o.bh2_full)
            ));
        }
    }
    Ok(json!({ "libfuzzy_golden_vectors": vectors, "large_vectors": 2, "models_agree": true }))
}

pub fn calibrate_cmp() -> Result<Value, String> {
    let cases: [(&str, &str, u32); 4] = [
        (
            "6:3ll7QzDkmJmMHkQoO/llSZEnEuLszmbMAWn:VqDk5QtLbW",
            "6:3ll7QzDkmQjmMoDHglHOxPWT0lT0lT0lB:VqDk+n",
            46,
        ),
        (
            "12288:+ySwl5P+C5IxJ845HYV5sxOH/cccccccei:+Klhav84a5sxJ",
            "12288:+yUwldx+C5IxJ845HYV5sxOH/cccccccex:+glvav84a5sxK",
            88,
        ),
        ("3:aaX8v:aV", "3:aaX8v:aV", 100),
        ("3:aaX8v:aV", "12:aaX8v:aV", 0),
    ];
    for (a, b, s) in cases {
        let got = oracle::cmp::compare_texts(a, b).ok_or("reference comparison failed to split")?;
        if got != s {
            return Err(format!("documented score mismatch: {} vs {}: reference {} documented {}", a, b, got, s));
        }
    }
    Ok(json!({ "documented_scores": cases.len() }))
}
