//! Thin helpers over the public API of the library under test (no oracle logic here except
//! the validity predicate, which is written from the documented invariants).

use crate::engine::must;
use crate::gens::RawH;
pub use ssdeep::constraints::{BlockHashSize as BHS, BlockHashSizes as BHSs, ConstrainedBlockHashSize as CBHS, ConstrainedBlockHashSizes as CBHSs};
use ssdeep::FuzzyHashData;

/// (log, bh1, bh2) as seen through the public accessors
pub fn content<const S1: usize, const S2: usize, const N: bool>(h: &FuzzyHashData<S1, S2, N>) -> RawH
where
    BHS<S1>: CBHS,
    BHS<S2>: CBHS,
    BHSs<S1, S2>: CBHSs,
{
    RawH {
        log: h.log_block_size(),
        bh1: h.block_hash_1().to_vec(),
        bh2: h.block_hash_2().to_vec(),
    }
}

/// Validity of a plain object from the documented invariants, via public accessors only:
/// valid log, lengths within capacity, symbols < 64, unused tail zero, normalised where the
/// type says so.
pub fn ref_valid<const S1: usize, const S2: usize, const N: bool>(h: &FuzzyHashData<S1, S2, N>) -> bool
where
    BHS<S1>: CBHS,
    BHS<S2>: CBHS,
    BHSs<S1, S2>: CBHSs,
{
    let l1 = h.block_hash_1_len();
    let l2 = h.block_hash_2_len();
    if h.log_block_size() >= 31 || l1 > S1 || l2 > S2 {
        return false;
    }
    let a1 = h.block_hash_1_as_array();
    let a2 = h.block_hash_2_as_array();
    let ok = |a: &[u8], l: usize| {
        a[..l].iter().all(|&s| s < 64)
            && a[l..].iter().all(|&s| s == 0)
            && (!N || oracle::fmt::is_collapsed(&a[..l]))
    };
    ok(a1, l1) && ok(a2, l2)
}

/// build a raw object through the checked constructor (in contract by construction)
pub fn build_raw<const S1: usize, const S2: usize>(h: &RawH) -> Result<FuzzyHashData<S1, S2, false>, String>
where
    BHS<S1>: CBHS,
    BHS<S2>: CBHS,
    BHSs<S1, S2>: CBHSs,
{
    must("new_from_internals_near_raw(raw)", || {
        FuzzyHashData::<S1, S2, false>::new_from_internals_near_raw(h.log, &h.bh1, &h.bh2)
    })
}

/// build a normalised object through the checked constructor; `h` must be collapsed
pub fn build_norm<const S1: usize, const S2: usize>(h: &RawH) -> Result<FuzzyHashData<S1, S2, true>, String>
where
    BHS<S1>: CBHS,
    BHS<S2>: CBHS,
    BHSs<S1, S2>: CBHSs,
{
    must("new_from_internals_near_raw(norm)", || {
        FuzzyHashData::<S1, S2, true>::new_from_internals_near_raw(h.log, &h.bh1, &h.bh2)
    })
}

/// std Hash with a fixed, seed-free hasher (FNV-1a 64)
pub struct FixedHasher(pub u64);
impl Default for FixedHasher {
    fn default() -> Self {
        FixedHasher(0xcbf2_9ce4_8422_2325)
    }
}
impl std::hash::Hasher for FixedHasher {
    fn finish(&self) -> u64 {
        self.0
    }
    fn write(&mut self, bytes: &[u8]) {
        for &b in bytes {
            self.0 ^= b as u64;
            self.0 = self.0.wrapping_mul(0x0000_0100_0000_01b3);
        }
    }
}
pub fn fixed_hash<T: std::hash::Hash>(t: &T) -> u64 {
    use std::hash::Hasher;
    let mut h = FixedHasher::default();
    t.hash(&mut h);
    h.finish()
}
/// records the byte stream a `Hash` implementation feeds to its hasher (concatenation of all writes)
#[derive(Default)]
pub struct RecordingHasher(pub Vec<u8>);
impl std::hash::Hasher for RecordingHasher {
    fn finish(&self) -> u64 {
        0
    }
    fn write(&mut self, bytes: &[u8]) {
        self.0.extend_from_slice(bytes);
    }
}
pub fn hasher_input<T: std::hash::Hash>(t: &T) -> Vec<u8> {
    let mut h = RecordingHasher::default();
    t.hash(&mut h);
    h.0
}

/// a second, differently structured fixed hasher (sum/rotate) to avoid judging by one function
pub struct FixedHasher2(pub u64);
impl std::hash::Hasher for FixedHasher2 {
    fn finish(&self) -> u64 {
        self.0
    }
    fn write(&mut self, bytes: &[u8]) {
        self.0 = self.0.rotate_left(7) ^ (bytes.len() as u64);
        for &b in bytes {
            self.0 = self.0.rotate_left(5).wrapping_add(b as u64).wrapping_mul(0x9E37_79B9_7F4A_7C15);
        }
    }
}
pub fn fixed_hash2<T: std::hash::Hash>(t: &T) -> u64 {
    use std::hash::Hasher;
    let mut h = FixedHasher2(1);
    t.hash(&mut h);
    h.finish()
}
