//! Shared generators: byte programs (G-bytes), hash layouts (G-hash), texts (G-text).

use oracle::words::{SplitMix, WordTable};
use proptest::collection::vec;
use proptest::prelude::*;
use serde::{Deserialize, Serialize};
use std::collections::HashMap;
use std::sync::{Arc, Mutex, OnceLock};

// ------------------------------------------------------------------------------------------
// word tables (cached per seed, rebuilt on replay from the seed stored in the case)

pub fn word_table(seed: u64) -> Arc<WordTable> {
    static CACHE: OnceLock<Mutex<HashMap<u64, Arc<WordTable>>>> = OnceLock::new();
    let m = CACHE.get_or_init(|| Mutex::new(HashMap::new()));
    if let Some(t) = m.lock().unwrap().get(&seed) {
        return t.clone();
    }
    let t = Arc::new(WordTable::build(seed, 3));
    m.lock().unwrap().insert(seed, t.clone());
    t
}

/// the repository's small test files (sorted by name); used as one more source of bytes
pub fn repo_files() -> &'static Vec<Vec<u8>> {
    static FILES: OnceLock<Vec<Vec<u8>>> = OnceLock::new();
    FILES.get_or_init(|| {
        let dir = "/repo/ffuzzy/data/testsuite/generate";
        let mut names: Vec<_> = std::fs::read_dir(dir)
            .map(|rd| {
                rd.filter_map(|e| e.ok())
                    .map(|e| e.path())
                    .filter(|p| {
                        p.extension()
                            .map(|x| x == "bin" || x == "txt")
                            .unwrap_or(false)
                    })
                    .collect()
            })
            .unwrap_or_else(|_| Vec::new());
        names.sort();
        names
            .into_iter()
            .filter_map(|p| std::fs::read(p).ok())
            .collect()
    })
}

// ------------------------------------------------------------------------------------------
// G-bytes

#[derive(Debug, Clone, Serialize, Deserialize, PartialEq)]
pub enum Tok {
    Rand { seed: u64, n: u32 },
    Zeros { n: u32 },
    Low { seed: u64, alpha: u8, n: u32 },
    Periodic { seed: u64, period: u8, n: u32 },
    Word { level: u8, variant: u8 },
    WordFF { variant: u8 },
    /// a non-zero 7-byte window whose rolling value is 0, followed by `zeros` zero bytes
    ZeroTrap { variant: u8, zeros: u32 },
    Lit { bytes: Vec<u8> },
    File { i: u8 },
    /// words that put the piece counts of levels t-1, t, t+1 on chosen values
    Aimed {
        t: u8,
        c_hi: u8,
        c_mid: u8,
        c_lo: u8,
        order: u64,
        filler: u8,
    },
}

#[derive(Debug, Clone, Serialize, Deserialize, PartialEq)]
pub struct Prog {
    /// seed of the word table
    pub wt: u64,
    pub toks: Vec<Tok>,
    /// pad (at the front) so that the total length is 192 * 2^border + delta, when the body is shorter
    pub target: Option<(u8, i8)>,
    pub pad_zeros: bool,
    pub pad_seed: u64,
}

fn push_word(out: &mut Vec<u8>, wt: &WordTable, level: u8, variant: u8) {
    let l = (level as usize).min(30);
    let v = &wt.words[l];
    out.extend_from_slice(&v[variant as usize % v.len()]);
}

/// bytes that cannot produce a boundary by themselves in a window of zeros: small values
fn push_filler(out: &mut Vec<u8>, kind: u8, rng: &mut SplitMix) {
    match kind % 4 {
        0 => {}
        1 => out.extend_from_slice(&[0u8; 7]),
        2 => {
            let n = (rng.next() % 5) as usize + 1;
            for _ in 0..n {
                out.push((rng.next() & 0xff) as u8);
            }
        }
        _ => {
            let n = (rng.next() % 12) as usize;
            out.extend(std::iter::repeat(0u8).take(n));
        }
    }
}

impl Tok {
    pub fn render(&self, out: &mut Vec<u8>, wt: &WordTable) {
        match self {
            Tok::Rand { seed, n } => {
                let start = out.len();
                out.resize(start + *n as usize, 0);
                SplitMix(*seed).fill(&mut out[start..]);
            }
            Tok::Zeros { n } => out.resize(out.len() + *n as usize, 0),
            Tok::Low { seed, alpha, n } => {
                let mut r = SplitMix(*seed);
                let a = (*alpha).clamp(1, 4) as u64;
                let syms: Vec<u8> = (0..a).map(|_| (r.next() & 0xff) as u8).collect();
                for _ in 0..*n {
                    out.push(syms[(r.next() % a) as usize]);
                }
            }
            Tok::Periodic { seed, period, n } => {
                let mut r = SplitMix(*seed);
                let p = (*period).max(1) as usize;
                let pat: Vec<u8> = (0..p).map(|_| (r.next() & 0xff) as u8).collect();
                for k in 0..*n as usize {
                    out.push(pat[k % p]);
                }
            }
            Tok::Word { level, variant } => push_word(out, wt, *level, *variant),
            Tok::WordFF { variant } => {
                out.extend_from_slice(&wt.ff[*variant as usize % wt.ff.len()]);
            }
            Tok::ZeroTrap { variant, zeros } => {
                out.extend_from_slice(&wt.zero[*variant as usize % wt.zero.len()]);
                out.resize(out.len() + *zeros as usize, 0);
            }
            Tok::Lit { bytes } => out.extend_from_slice(bytes),
            Tok::File { i } => {
                let f = repo_files();
                if !f.is_empty() {
                    out.extend_from_slice(&f[*i as usize % f.len()]);
                }
            }
            Tok::Aimed {
                t,
                c_hi,
                c_mid,
                c_lo,
                order,
                filler,
            } => {
                // counts are cumulative: level t+1 gets c_hi, level t gets max(c_mid,c_hi), ...
                let hi = *c_hi as usize;
                let mid = (*c_mid as usize).max(hi);
                let lo = (*c_lo as usize).max(mid);
                let mut seq: Vec<u8> = Vec::with_capacity(lo);
                let t = (*t).min(30);
                seq.extend(std::iter::repeat(t.saturating_add(1).min(30)).take(hi));
                seq.extend(std::iter::repeat(t).take(mid - hi));
                if t > 0 {
                    seq.extend(std::iter::repeat(t - 1).take(lo - mid));
                }
                // deterministic shuffle
                let mut r = SplitMix(*order);
                for i in (1..seq.len()).rev() {
                    let j = (r.next() % (i as u64 + 1)) as usize;
                    seq.swap(i, j);
                }
                for (k, lvl) in seq.iter().enumerate() {
                    push_filler(out, *filler, &mut r);
                    push_word(out, wt, *lvl, (k % 3) as u8);
                }
            }
        }
    }
}

impl Prog {
    pub fn render(&self) -> Vec<u8> {
        let wt = word_table(self.wt);
        let mut body = Vec::new();
        for t in &self.toks {
            t.render(&mut body, &wt);
        }
        if let Some((border, delta)) = self.target {
            let tgt = (192i64 << border.min(20)) + delta as i64;
            if tgt > body.len() as i64 {
                let pad = (tgt as usize) - body.len();
                let mut out = vec![0u8; pad];
                if !self.pad_zeros {
                    SplitMix(self.pad_seed).fill(&mut out);
                }
                out.extend_from_slice(&body);
                return out;
            }
        }
        body
    }
    pub fn word_positions_hint(&self) -> usize {
        self.toks
            .iter()
            .filter(|t| matches!(t, Tok::Word { .. } | Tok::Aimed { .. } | Tok::WordFF { .. } | Tok::ZeroTrap { .. }))
            .count()
    }
}

/// log-uniform size up to `max`
pub fn size_log_uniform(max: u32) -> impl Strategy<Value = u32> {
    let bits = 32 - max.max(1).leading_zeros();
    (0..=bits, any::<u32>()).prop_map(move |(b, r)| {
        let hi = if b == 0 { 1 } else { 1u64 << b };
        let v = (r as u64 % hi) as u32;
        v.min(max)
    })
}

pub fn count_value() -> impl Strategy<Value = u8> {
    prop_oneof![
        4 => prop::sample::select(vec![0u8, 1, 31, 32, 33, 63, 64, 65]),
        1 => 0u8..=80,
    ]
}

pub fn tok_simple(max_n: u32) -> impl Strategy<Value = Tok> {
    prop_oneof![
        3 => (any::<u64>(), size_log_uniform(max_n)).prop_map(|(seed, n)| Tok::Rand { seed, n }),
        2 => size_log_uniform(max_n).prop_map(|n| Tok::Zeros { n }),
        2 => (any::<u64>(), 1u8..=4, size_log_uniform(max_n)).prop_map(|(seed, alpha, n)| Tok::Low { seed, alpha, n }),
        2 => (any::<u64>(), 1u8..=64, size_log_uniform(max_n)).prop_map(|(seed, period, n)| Tok::Periodic { seed, period, n }),
        3 => (level_any(), 0u8..4).prop_map(|(level, variant)| Tok::Word { level, variant }),
        1 => (0u8..2).prop_map(|variant| Tok::WordFF { variant }),
        1 => (0u8..3, prop_oneof![0u32..=16, size_log_uniform(max_n)]).prop_map(|(variant, zeros)| Tok::ZeroTrap { variant, zeros }),
        1 => vec(any::<u8>(), 0..16).prop_map(|bytes| Tok::Lit { bytes }),
        1 => any::<u8>().prop_map(|i| Tok::File { i }),
    ]
}

/// level for a single word: low levels often, level 30 regularly
pub fn level_any() -> impl Strategy<Value = u8> {
    prop_oneof![
        5 => 0u8..=12,
        2 => 13u8..=29,
        2 => Just(30u8),
    ]
}

pub fn tok_aimed(max_t: u8) -> impl Strategy<Value = Tok> {
    (0..=max_t, count_value(), count_value(), count_value(), any::<u64>(), 0u8..4).prop_map(
        |(t, c_hi, c_mid, c_lo, order, filler)| Tok::Aimed {
            t,
            c_hi,
            c_mid,
            c_lo,
            order,
            filler,
        },
    )
}

pub fn tail_tok() -> impl Strategy<Value = Option<Tok>> {
    prop_oneof![
        2 => Just(None),
        2 => Just(Some(Tok::Zeros { n: 7 })),
        1 => (1u32..7).prop_map(|n| Some(Tok::Zeros { n })),
        2 => (any::<u64>(), 1u32..20).prop_map(|(seed, n)| Some(Tok::Rand { seed, n })),
    ]
}

/// word-program aimed at a level / piece-count / border / tail combination
pub fn prog_aimed(wt: u64, max_border: u8) -> impl Strategy<Value = Prog> {
    (
        tok_aimed(max_border.saturating_add(1)),
        vec(tok_simple(64), 0..3),
        tail_tok(),
        prop::option::weighted(0.8, (0..=max_border, -2i8..=2)),
        any::<bool>(),
        any::<u64>(),
        0u8..3,
    )
        .prop_map(move |(aimed, extra, tail, target, pad_zeros, pad_seed, place)| {
            let mut toks = Vec::new();
            match place {
                0 => {
                    toks.push(aimed);
                    toks.extend(extra);
                }
                1 => {
                    toks.extend(extra);
                    toks.push(aimed);
                }
                _ => {
                    let mut e = extra.into_iter();
                    if let Some(x) = e.next() {
                        toks.push(x);
                    }
                    toks.push(aimed);
                    toks.extend(e);
                }
            }
            if let Some(t) = tail {
                toks.push(t);
            }
            Prog {
                wt,
                toks,
                target,
                pad_zeros,
                pad_seed,
            }
        })
}

/// free-form program
pub fn prog_free(wt: u64, max_n: u32, max_toks: usize, max_border: u8) -> impl Strategy<Value = Prog> {
    (
        vec(tok_simple(max_n), 0..=max_toks),
        prop::option::weighted(0.3, (0..=max_border, -2i8..=2)),
        any::<bool>(),
        any::<u64>(),
    )
        .prop_map(move |(toks, target, pad_zeros, pad_seed)| Prog {
            wt,
            toks,
            target,
            pad_zeros,
            pad_seed,
        })
}

/// uniform random bytes of log-uniform size
pub fn prog_uniform(wt: u64, max_n: u32) -> impl Strategy<Value = Prog> {
    (any::<u64>(), size_log_uniform(max_n), tail_tok()).prop_map(move |(seed, n, tail)| {
        let mut toks = vec![Tok::Rand { seed, n }];
        if let Some(t) = tail {
            toks.push(t);
        }
        Prog {
            wt,
            toks,
            target: None,
            pad_zeros: true,
            pad_seed: 0,
        }
    })
}

/// the mix used by C01/C03/C12/C18
pub fn prog_mix(wt: u64, max_n: u32, max_border: u8) -> impl Strategy<Value = Prog> {
    prop_oneof![
        4 => prog_aimed(wt, max_border),
        3 => prog_uniform(wt, max_n),
        3 => prog_free(wt, max_n / 4, 6, max_border),
    ]
}

// ------------------------------------------------------------------------------------------
// G-hash

/// log block size: uniform with extra weight on the capped region and the top
pub fn log_bs() -> impl Strategy<Value = u8> {
    prop_oneof![
        3 => 0u8..=4,
        5 => 0u8..=30,
        2 => 28u8..=30,
    ]
}

fn run_len() -> impl Strategy<Value = u8> {
    prop_oneof![
        50 => Just(1u8),
        14 => Just(2u8),
        10 => Just(3u8),
        8 => Just(4u8),
        5 => Just(5u8),
        4 => 6u8..=9,
        2 => 10u8..=64,
    ]
}

fn target_len(cap: usize) -> impl Strategy<Value = usize> {
    let cap2 = cap;
    prop_oneof![
        4 => prop::sample::select(vec![0usize, 1, 6, 7, 8, 31, 32, 33, 63, 64]).prop_map(move |l| l.min(cap2)),
        6 => 0..=cap,
    ]
}

/// block hash as a run layout over an alphabet of size 1/2/4/16/64, length <= cap
pub fn block_hash(cap: usize) -> impl Strategy<Value = Vec<u8>> {
    (
        target_len(cap),
        prop::sample::select(vec![1u8, 2, 4, 4, 16, 16, 16, 64, 64, 64, 64, 64]),
        any::<u8>(),
        vec((any::<u8>(), run_len()), 0..=70),
    )
        .prop_map(|(l, alpha, base, runs)| {
            let mut out: Vec<u8> = Vec::with_capacity(l);
            let mut k = 0usize;
            while out.len() < l {
                let (s, n) = if k < runs.len() { runs[k] } else { (k as u8, 1) };
                k += 1;
                let sym = (base.wrapping_add(s % alpha)) % 64;
                for _ in 0..n {
                    if out.len() < l {
                        out.push(sym);
                    }
                }
            }
            out
        })
}

/// block hash whose length is mostly >= `min` (comparison properties need >= 7 symbols)
pub fn block_hash_min(cap: usize, min: usize) -> impl Strategy<Value = Vec<u8>> {
    (block_hash(cap), block_hash(cap), 0u8..10).prop_map(move |(a, b, k)| {
        if a.len() >= min || k == 0 {
            a
        } else {
            // extend with the second layout
            let mut v = a;
            v.extend(b);
            v.truncate(cap);
            v
        }
    })
}

/// normalised block hash (no run longer than 3)
pub fn block_hash_norm(cap: usize) -> impl Strategy<Value = Vec<u8>> {
    block_hash(cap).prop_map(|v| oracle::fmt::collapse(&v))
}

#[derive(Debug, Clone, Serialize, Deserialize, PartialEq, Eq, Hash)]
pub struct RawH {
    pub log: u8,
    pub bh1: Vec<u8>,
    pub bh2: Vec<u8>,
}

impl RawH {
    pub fn text(&self) -> String {
        oracle::fmt::format_hash(self.log, &self.bh1, &self.bh2)
    }
    pub fn collapsed(&self) -> RawH {
        RawH {
            log: self.log,
            bh1: oracle::fmt::collapse(&self.bh1),
            bh2: oracle::fmt::collapse(&self.bh2),
        }
    }
    pub fn fp(&self) -> u64 {
        oracle::fingerprint(self.text().as_bytes())
    }
}

/// raw hash with block hashes mostly long enough to be comparable
pub fn raw_hash_long(cap2: usize) -> impl Strategy<Value = RawH> {
    (log_bs(), block_hash_min(64, 12), block_hash_min(cap2, 12)).prop_map(|(log, bh1, bh2)| RawH { log, bh1, bh2 })
}

pub fn raw_hash(cap2: usize) -> impl Strategy<Value = RawH> {
    (log_bs(), block_hash(64), block_hash(cap2)).prop_map(|(log, bh1, bh2)| RawH { log, bh1, bh2 })
}

pub fn norm_hash(cap2: usize) -> impl Strategy<Value = RawH> {
    raw_hash(cap2).prop_map(|h| h.collapsed())
}

#[derive(Debug, Clone, Serialize, Deserialize, PartialEq)]
pub enum Edit {
    Ins { pos: u16, sym: u8 },
    Del { pos: u16 },
    Sub { pos: u16, sym: u8 },
    Rot { by: u16 },
    InsRun { pos: u16, sym: u8, n: u8 },
    Rev,
    Trunc { len: u16 },
}

pub fn edit() -> impl Strategy<Value = Edit> {
    prop_oneof![
        3 => (any::<u16>(), 0u8..64).prop_map(|(pos, sym)| Edit::Ins { pos, sym }),
        3 => any::<u16>().prop_map(|pos| Edit::Del { pos }),
        3 => (any::<u16>(), 0u8..64).prop_map(|(pos, sym)| Edit::Sub { pos, sym }),
        1 => any::<u16>().prop_map(|by| Edit::Rot { by }),
        1 => (any::<u16>(), 0u8..64, 1u8..8).prop_map(|(pos, sym, n)| Edit::InsRun { pos, sym, n }),
        1 => Just(Edit::Rev),
        1 => any::<u16>().prop_map(|len| Edit::Trunc { len }),
    ]
}

pub fn apply_edits(src: &[u8], edits: &[Edit], cap: usize) -> Vec<u8> {
    use crate::engine::pick_index;
    let mut v = src.to_vec();
    for e in edits {
        match e {
            Edit::Ins { pos, sym } => {
                let p = pick_index(*pos, v.len() + 1);
                v.insert(p, *sym % 64);
            }
            Edit::Del { pos } => {
                if !v.is_empty() {
                    let p = pick_index(*pos, v.len());
                    v.remove(p);
                }
            }
            Edit::Sub { pos, sym } => {
                if !v.is_empty() {
                    let p = pick_index(*pos, v.len());
                    v[p] = *sym % 64;
                }
            }
            Edit::Rot { by } => {
                if !v.is_empty() {
                    let k = pick_index(*by, v.len());
                    v.rotate_left(k);
                }
            }
            Edit::InsRun { pos, sym, n } => {
                let p = pick_index(*pos, v.len() + 1);
                for _ in 0..*n {
                    v.insert(p, *sym % 64);
                }
            }
            Edit::Rev => v.reverse(),
            Edit::Trunc { len } => {
                let l = pick_index(*len, v.len() + 1);
                v.truncate(l);
            }
        }
        v.truncate(cap);
    }
    v
}

// ------------------------------------------------------------------------------------------
// G-text

pub fn block_size_spelling() -> impl Strategy<Value = Vec<u8>> {
    prop_oneof![
        10 => (0u8..31).prop_map(|l| (3u64 << l).to_string().into_bytes()),
        1 => (0u8..31).prop_map(|l| format!("0{}", 3u64 << l).into_bytes()),
        1 => Just(b"0".to_vec()),
        1 => (1u64..5_000_000_000).prop_map(|v| v.to_string().into_bytes()),
        1 => prop::sample::select(vec![
            "4294967295", "4294967296", "6442450944", "3221225473", "3221225471", "1", "2", "4", "5", "7", "9", "00", "03", "+3", "3 ", " 3", "-3", "3.0", "0x3"
        ]).prop_map(|s| s.as_bytes().to_vec()),
        // numbers of the shape m * 2^k for small odd m: powers of two, 3 * 2^k beyond the 31 valid ones,
        // values that wrap to a valid size in 32 bits
        1 => (prop::sample::select(vec![1u64, 3, 5, 9, 15]), 0u32..=40).prop_map(|(m, k)| (m << k).to_string().into_bytes()),
        1 => (0u8..31, 1u64..4).prop_map(|(l, w)| ((3u64 << l) + (w << 32)).to_string().into_bytes()),
        1 => (20usize..160, 0u8..10).prop_map(|(n, d)| vec![b'0' + d.max(1); n]),
        1 => Just(Vec::new()),
        1 => (0u8..31, any::<u8>(), any::<u16>()).prop_map(|(l, b, p)| {
            let mut s = (3u64 << l).to_string().into_bytes();
            let i = crate::engine::pick_index(p, s.len() + 1);
            s.insert(i, b);
            s
        }),
    ]
}

/// block hash text with raw / collapsed lengths around the capacities 32 and 64, up to ~200 chars
pub fn block_hash_text() -> impl Strategy<Value = Vec<u8>> {
    let len_class = prop_oneof![
        3 => 0usize..=8,
        4 => prop::sample::select(vec![29usize, 30, 31, 32, 33, 34, 35, 36, 61, 62, 63, 64, 65, 66, 67, 68, 69, 72, 96, 128]),
        3 => 0usize..=70,
        1 => 70usize..=200,
    ];
    (
        len_class,
        prop::sample::select(vec![1u8, 2, 4, 16, 64]),
        any::<u8>(),
        vec((any::<u8>(), run_len()), 0..=80),
        any::<bool>(),
    )
        .prop_map(|(l, alpha, base, runs, count_collapsed)| {
            // when count_collapsed is set, `l` is the length after collapsing
            let mut out: Vec<u8> = Vec::new();
            let mut col = 0usize;
            let mut k = 0usize;
            let mut prev: Option<u8> = None;
            let mut seq = 0usize;
            loop {
                let cur = if count_collapsed { col } else { out.len() };
                if cur >= l || out.len() > 400 {
                    break;
                }
                let (s, n) = if k < runs.len() { runs[k] } else { (k as u8, 1) };
                k += 1;
                let sym = (base.wrapping_add(s % alpha)) % 64;
                for _ in 0..n {
                    let cur = if count_collapsed { col } else { out.len() };
                    if cur >= l && !(count_collapsed && prev == Some(sym) && seq >= 3) {
                        break;
                    }
                    if prev == Some(sym) {
                        seq += 1;
                    } else {
                        seq = 1;
                        prev = Some(sym);
                    }
                    if seq <= 3 {
                        col += 1;
                    }
                    out.push(oracle::fmt::B64[sym as usize]);
                }
            }
            out
        })
}

pub fn text_tail() -> impl Strategy<Value = Vec<u8>> {
    prop_oneof![
        5 => Just(Vec::new()),
        1 => Just(b",".to_vec()),
        2 => vec(prop_oneof![
                4 => any::<u8>(),
                2 => prop::sample::select(vec![b':', b',', b'"', b'/', b'\\', 0u8, 0x80, 0xff, b'A', b'3']),
            ], 0..24).prop_map(|mut v| { v.insert(0, b','); v }),
        1 => Just(b",\"file name.txt\"".to_vec()),
    ]
}

#[derive(Debug, Clone, Serialize, Deserialize, PartialEq)]
pub enum Mutation {
    Insert { pos: u16, byte: u8 },
    Delete { pos: u16 },
    Replace { pos: u16, byte: u8 },
    Truncate { pos: u16 },
    Dup { pos: u16, n: u8 },
}

fn special_byte() -> impl Strategy<Value = u8> {
    prop_oneof![
        6 => prop::sample::select(vec![b':', b',', b'@', 0u8, 0x80, 0xff, b' ', b'=', b'-', b'_', b'\n']),
        3 => prop::sample::select(oracle::fmt::B64.to_vec()),
        1 => any::<u8>(),
    ]
}

pub fn mutation() -> impl Strategy<Value = Mutation> {
    prop_oneof![
        3 => (any::<u16>(), special_byte()).prop_map(|(pos, byte)| Mutation::Insert { pos, byte }),
        2 => any::<u16>().prop_map(|pos| Mutation::Delete { pos }),
        3 => (any::<u16>(), special_byte()).prop_map(|(pos, byte)| Mutation::Replace { pos, byte }),
        1 => any::<u16>().prop_map(|pos| Mutation::Truncate { pos }),
        1 => (any::<u16>(), 1u8..6).prop_map(|(pos, n)| Mutation::Dup { pos, n }),
    ]
}

pub fn apply_mutations(src: &[u8], muts: &[Mutation], skip_prefix: usize) -> Vec<u8> {
    use crate::engine::pick_index;
    let mut v = src.to_vec();
    for m in muts {
        // positions are biased past the block size field (most mutations there only produce
        // block-size errors)
        let lo = skip_prefix.min(v.len());
        match m {
            Mutation::Insert { pos, byte } => {
                let p = lo + pick_index(*pos, v.len() - lo + 1);
                v.insert(p, *byte);
            }
            Mutation::Delete { pos } => {
                if v.len() > lo {
                    let p = lo + pick_index(*pos, v.len() - lo);
                    v.remove(p);
                }
            }
            Mutation::Replace { pos, byte } => {
                if v.len() > lo {
                    let p = lo + pick_index(*pos, v.len() - lo);
                    v[p] = *byte;
                }
            }
            Mutation::Truncate { pos } => {
                let p = lo + pick_index(*pos, v.len() - lo + 1);
                v.truncate(p);
            }
            Mutation::Dup { pos, n } => {
                if v.len() > lo {
                    let p = lo + pick_index(*pos, v.len() - lo);
                    let b = v[p];
                    for _ in 0..*n {
                        v.insert(p, b);
                    }
                }
            }
        }
    }
    v
}

/// grammar-derived text (may be invalid through its spelling classes)
pub fn text_grammar() -> impl Strategy<Value = Vec<u8>> {
    (block_size_spelling(), block_hash_text(), block_hash_text(), text_tail()).prop_map(
        |(bs, b1, b2, tail)| {
            let mut v = bs;
            v.push(b':');
            v.extend(b1);
            v.push(b':');
            v.extend(b2);
            v.extend(tail);
            v
        },
    )
}

/// valid block size, then grammar-derived rest: the bulk of parser inputs
pub fn text_valid_bs() -> impl Strategy<Value = Vec<u8>> {
    ((0u8..31), block_hash_text(), block_hash_text(), text_tail()).prop_map(|(l, b1, b2, tail)| {
        let mut v = (3u64 << l).to_string().into_bytes();
        v.push(b':');
        v.extend(b1);
        v.push(b':');
        v.extend(b2);
        v.extend(tail);
        v
    })
}

pub fn text_mix() -> impl Strategy<Value = Vec<u8>> {
    prop_oneof![
        4 => text_valid_bs(),
        2 => text_grammar(),
        3 => (text_valid_bs(), vec(mutation(), 1..=3), any::<bool>()).prop_map(|(t, m, skip)| {
            let skip_n = if skip { t.iter().position(|&c| c == b':').map(|p| p + 1).unwrap_or(0) } else { 0 };
            apply_mutations(&t, &m, skip_n)
        }),
        1 => vec(any::<u8>(), 0..80),
        1 => vec(prop::sample::select(b"0123456789:,AB/+ab369".to_vec()), 0..60),
    ]
}
