//! Engine: seeded parallel proptest runner, enumerations, statistics, evidence, replay files.

use proptest::strategy::Strategy;
use proptest::test_runner::{Config, RngAlgorithm, TestCaseError, TestError, TestRng, TestRunner};
use serde::de::DeserializeOwned;
use serde::Serialize;
use serde_json::{json, Value};
use std::cell::RefCell;
use std::collections::{BTreeMap, HashSet};
use std::fmt::Debug;
use std::panic::{catch_unwind, AssertUnwindSafe};
use std::sync::atomic::{AtomicBool, Ordering};
use std::time::Instant;

#[derive(Debug, Clone, Copy, PartialEq, Eq)]
pub enum Tier {
    Quick,
    Thorough,
}

impl Tier {
    pub fn name(&self) -> &'static str {
        match self {
            Tier::Quick => "quick",
            Tier::Thorough => "thorough",
        }
    }
    /// pick by tier
    pub fn pick<T>(&self, q: T, t: T) -> T {
        match self {
            Tier::Quick => q,
            Tier::Thorough => t,
        }
    }
}

pub const PROFILE: &str = if cfg!(debug_assertions) { "relda" } else { "release" };

// ------------------------------------------------------------------------------------------
// panics: every library call goes through `lib()`, which turns a panic into Err(message).

thread_local! {
    static LAST_PANIC: RefCell<Option<String>> = const { RefCell::new(None) };
}

pub fn install_panic_hook() {
    std::panic::set_hook(Box::new(|info| {
        let msg = if let Some(s) = info.payload().downcast_ref::<&str>() {
            s.to_string()
        } else if let Some(s) = info.payload().downcast_ref::<String>() {
            s.clone()
        } else {
            "<non-string panic payload>".to_string()
        };
        let loc = info
            .location()
            .map(|l| format!("{}:{}", l.file(), l.line()))
            .unwrap_or_default();
        LAST_PANIC.with(|p| *p.borrow_mut() = Some(format!("{} @ {}", msg, loc)));
    }));
}

/// Run one library call; a panic becomes `Err(panic message @ location)`.
pub fn lib<T>(f: impl FnOnce() -> T) -> Result<T, String> {
    match catch_unwind(AssertUnwindSafe(f)) {
        Ok(v) => Ok(v),
        Err(_) => Err(LAST_PANIC
            .with(|p| p.borrow_mut().take())
            .unwrap_or_else(|| "<panic>".to_string())),
    }
}

/// Library call that the property says must return: a panic is a violation with this label.
pub fn must<T>(what: &str, f: impl FnOnce() -> T) -> Result<T, String> {
    lib(f).map_err(|p| format!("{} panicked: {}", what, p))
}

// ------------------------------------------------------------------------------------------
// statistics

#[derive(Default)]
pub struct Stats {
    pub evaluations: u64,
    /// fingerprints of non-trivial cases (distinct by construction cases use `nt_counted`)
    pub nt_set: HashSet<u64>,
    pub nt_counted: u64,
    pub classes: BTreeMap<String, u64>,
    nt_flag: bool,
    muted: bool,
}

impl Stats {
    /// this case is non-trivial; `fp` identifies it (distinctness)
    pub fn nontrivial(&mut self, fp: u64) {
        if self.muted {
            return;
        }
        self.nt_flag = true;
        self.nt_set.insert(fp);
    }
    /// n cases that are non-trivial and distinct by construction (enumerations)
    pub fn nontrivial_distinct(&mut self, n: u64) {
        if self.muted {
            return;
        }
        self.nt_flag = true;
        self.nt_counted += n;
    }
    pub fn class(&mut self, c: &str) {
        self.class_n(c, 1);
    }
    pub fn class_n(&mut self, c: &str, n: u64) {
        if self.muted {
            return;
        }
        if let Some(v) = self.classes.get_mut(c) {
            *v += n;
        } else {
            self.classes.insert(c.to_string(), n);
        }
    }
    pub fn count(&mut self, n: u64) {
        if self.muted {
            return;
        }
        self.evaluations += n;
    }
    pub fn merge(&mut self, o: Stats) {
        self.evaluations += o.evaluations;
        self.nt_counted += o.nt_counted;
        self.nt_set.extend(o.nt_set);
        for (k, v) in o.classes {
            *self.classes.entry(k).or_insert(0) += v;
        }
    }
    pub fn distinct_nontrivial(&self) -> u64 {
        self.nt_set.len() as u64 + self.nt_counted
    }
}

// ------------------------------------------------------------------------------------------
// results

#[derive(Debug, Clone)]
pub struct Failure {
    pub subcheck: String,
    pub message: String,
    pub case: Value,
    pub harness_fault: bool,
}

pub struct SubResult {
    pub name: String,
    pub rule: String,
    pub stats: Stats,
    pub samples: Vec<Value>,
    pub exhaustive: bool,
    pub failure: Option<Failure>,
    pub wall_s: f64,
    pub extra: BTreeMap<String, Value>,
}

pub struct Ctx {
    pub prop: &'static str,
    pub tier: Tier,
    pub seed: u64,
    pub threads: usize,
}

impl Ctx {
    pub fn worker_seed(&self, sub: &str, worker: usize) -> [u8; 32] {
        // fixed hash of (seed, property, sub-check, worker)
        let mut out = [0u8; 32];
        let base = format!("{}|{}|{}|{}", self.seed, self.prop, sub, worker);
        let mut h = oracle::fingerprint(base.as_bytes());
        for chunk in out.chunks_mut(8) {
            h = h
                .wrapping_mul(0x9E37_79B9_7F4A_7C15)
                .wrapping_add(0x1234_5678_9abc_def1)
                .rotate_left(23)
                ^ oracle::fingerprint(&h.to_le_bytes());
            chunk.copy_from_slice(&h.to_le_bytes());
        }
        out
    }
    /// seed-derived u64 for auxiliary deterministic tables
    pub fn aux_seed(&self, what: &str) -> u64 {
        oracle::fingerprint(format!("{}|{}|{}", self.seed, self.prop, what).as_bytes())
    }
}

const HARNESS_PANIC: &str = "HARNESS-PANIC";

/// A panic that escaped `lib()`: raised inside the library's own source (an in-contract call panicked,
/// which every property forbids) or in the harness (a harness fault, exit 2)?
fn panic_in_library(msg: &str) -> bool {
    msg.rsplit_once(" @ ").map(|(_, loc)| loc.contains("ffuzzy/src/")).unwrap_or(false)
}

/// Generated search: `cases` cases split over the workers; `strat()` builds the strategy in
/// each worker; `eval` judges one case.
pub fn run_generated<C, S, FS, FE>(
    ctx: &Ctx,
    name: &str,
    rule: &str,
    cases: u64,
    strat: FS,
    eval: FE,
) -> SubResult
where
    C: Debug + Clone + Serialize + Send,
    S: Strategy<Value = C>,
    FS: Fn() -> S + Sync,
    FE: Fn(&C, &mut Stats) -> Result<(), String> + Sync,
{
    let t0 = Instant::now();
    let workers = ctx.threads.max(1).min(cases.max(1) as usize);
    let stop = AtomicBool::new(false);
    struct WorkerOut {
        stats: Stats,
        first: Option<Value>,
        last: Option<Value>,
        failure: Option<(Value, String, bool)>,
    }
    let outs: Vec<WorkerOut> = std::thread::scope(|scope| {
        let mut handles = Vec::new();
        for w in 0..workers {
            let share = cases / workers as u64 + if (w as u64) < cases % workers as u64 { 1 } else { 0 };
            let seed = ctx.worker_seed(name, w);
            let strat = &strat;
            let eval = &eval;
            let stop = &stop;
            handles.push(
                std::thread::Builder::new()
                    .stack_size(64 << 20)
                    .spawn_scoped(scope, move || {
                        let config = Config {
                            cases: share.min(u32::MAX as u64) as u32,
                            failure_persistence: None,
                            max_shrink_iters: 3000,
                            max_global_rejects: 65536,
                            verbose: 0,
                            ..Config::default()
                        };
                        let rng = TestRng::from_seed(RngAlgorithm::ChaCha, &seed);
                        let mut runner = TestRunner::new_with_rng(config, rng);
                        let stats = RefCell::new(Stats::default());
                        let first: RefCell<Option<Value>> = RefCell::new(None);
                        let last: RefCell<Option<Value>> = RefCell::new(None);
                        let failed = RefCell::new(false);
                        let harness_fault = RefCell::new(false);
                        let sample_budget = std::cell::Cell::new(0u64);
                        let strategy = strat();
                        let res = runner.run(&strategy, |case| {
                            if stop.load(Ordering::Relaxed) && !*failed.borrow() {
                                // another worker failed: finish quickly (remaining cases pass vacuously,
                                // they are not counted)
                                return Ok(());
                            }
                            let mut st = stats.borrow_mut();
                            let counting = !*failed.borrow();
                            st.muted = !counting;
                            st.nt_flag = false;
                            let r = catch_unwind(AssertUnwindSafe(|| eval(&case, &mut st)));
                            match r {
                                Ok(Ok(())) => {
                                    if counting {
                                        st.muted = false;
                                        st.evaluations += 1;
                                        if st.nt_flag {
                                            sample_budget.set(sample_budget.get() + 1);
                                            if first.borrow().is_none() {
                                                *first.borrow_mut() = serde_json::to_value(&case).ok();
                                            } else if sample_budget.get() % 257 == 0 {
                                                *last.borrow_mut() = serde_json::to_value(&case).ok();
                                            }
                                        }
                                    }
                                    Ok(())
                                }
                                Ok(Err(msg)) => {
                                    if counting {
                                        st.muted = false;
                                        st.evaluations += 1;
                                    }
                                    *failed.borrow_mut() = true;
                                    stop.store(true, Ordering::Relaxed);
                                    Err(TestCaseError::fail(msg))
                                }
                                Err(_) => {
                                    let p = LAST_PANIC
                                        .with(|p| p.borrow_mut().take())
                                        .unwrap_or_default();
                                    *failed.borrow_mut() = true;
                                    stop.store(true, Ordering::Relaxed);
                                    if panic_in_library(&p) {
                                        Err(TestCaseError::fail(format!("the library panicked on an in-contract call: {}", p)))
                                    } else {
                                        *harness_fault.borrow_mut() = true;
                                        Err(TestCaseError::fail(format!("{}: {}", HARNESS_PANIC, p)))
                                    }
                                }
                            }
                        });
                        let failure = match res {
                            Ok(()) => None,
                            Err(TestError::Fail(reason, value)) => {
                                let msg = reason.message().to_string();
                                let hf = msg.starts_with(HARNESS_PANIC);
                                Some((
                                    serde_json::to_value(&value).unwrap_or(Value::Null),
                                    msg,
                                    hf,
                                ))
                            }
                            Err(TestError::Abort(reason)) => Some((
                                Value::Null,
                                format!("{}: proptest aborted: {}", HARNESS_PANIC, reason.message()),
                                true,
                            )),
                        };
                        let mut stats = stats.into_inner();
                        stats.muted = false;
                        WorkerOut {
                            stats,
                            first: first.into_inner(),
                            last: last.into_inner(),
                            failure,
                        }
                    })
                    .expect("spawn"),
            );
        }
        handles.into_iter().map(|h| h.join().expect("worker join")).collect()
    });
    let mut stats = Stats::default();
    let mut samples = Vec::new();
    let mut failure = None;
    let n = outs.len();
    for (i, o) in outs.into_iter().enumerate() {
        stats.merge(o.stats);
        if i == 0 {
            if let Some(f) = o.first {
                samples.push(f);
            }
        } else if i == n / 2 || i == n - 1 {
            if let Some(l) = o.last.or(o.first) {
                samples.push(l);
            }
        }
        if failure.is_none() {
            if let Some((case, message, hf)) = o.failure {
                failure = Some(Failure {
                    subcheck: name.to_string(),
                    message,
                    case,
                    harness_fault: hf,
                });
            }
        }
    }
    SubResult {
        name: name.to_string(),
        rule: rule.to_string(),
        stats,
        samples,
        exhaustive: false,
        failure,
        wall_s: t0.elapsed().as_secs_f64(),
        extra: BTreeMap::new(),
    }
}

/// Enumeration of the index range 0..total, split into contiguous blocks over the workers.
/// `eval_range(lo, hi, stats)` judges the indices lo..hi and returns the first failing index.
pub fn run_enumerated<FE>(
    ctx: &Ctx,
    name: &str,
    rule: &str,
    total: u64,
    exhaustive: bool,
    sample_of: impl Fn(u64) -> Value,
    eval_range: FE,
) -> SubResult
where
    FE: Fn(u64, u64, &mut Stats) -> Result<(), (u64, String)> + Sync,
{
    let t0 = Instant::now();
    let blocks = (ctx.threads.max(1) as u64 * 8).min(total.max(1));
    let next = std::sync::atomic::AtomicU64::new(0);
    let stop = AtomicBool::new(false);
    let results: Vec<(Stats, Option<(u64, String, bool)>)> = std::thread::scope(|scope| {
        let mut hs = Vec::new();
        for _ in 0..ctx.threads.max(1) {
            let next = &next;
            let stop = &stop;
            let eval_range = &eval_range;
            hs.push(
                std::thread::Builder::new()
                    .stack_size(64 << 20)
                    .spawn_scoped(scope, move || {
                        let mut st = Stats::default();
                        let mut fail = None;
                        loop {
                            let b = next.fetch_add(1, Ordering::Relaxed);
                            if b >= blocks || stop.load(Ordering::Relaxed) {
                                break;
                            }
                            let lo = total / blocks * b + (total % blocks).min(b);
                            let hi = total / blocks * (b + 1) + (total % blocks).min(b + 1);
                            let r = catch_unwind(AssertUnwindSafe(|| eval_range(lo, hi, &mut st)));
                            match r {
                                Ok(Ok(())) => {}
                                Ok(Err((idx, msg))) => {
                                    fail = Some((idx, msg, false));
                                    stop.store(true, Ordering::Relaxed);
                                    break;
                                }
                                Err(_) => {
                                    let p = LAST_PANIC.with(|p| p.borrow_mut().take()).unwrap_or_default();
                                    fail = if panic_in_library(&p) {
                                        Some((lo, format!("the library panicked on an in-contract call (block starting at index {}): {}", lo, p), false))
                                    } else {
                                        Some((lo, format!("{}: {}", HARNESS_PANIC, p), true))
                                    };
                                    stop.store(true, Ordering::Relaxed);
                                    break;
                                }
                            }
                        }
                        (st, fail)
                    })
                    .expect("spawn"),
            );
        }
        hs.into_iter().map(|h| h.join().expect("join")).collect()
    });
    let mut stats = Stats::default();
    let mut failure: Option<Failure> = None;
    for (st, f) in results {
        stats.merge(st);
        if let Some((idx, msg, hf)) = f {
            let better = match &failure {
                None => true,
                Some(old) => old.case["index"].as_u64().map(|o| idx < o).unwrap_or(true),
            };
            if better {
                failure = Some(Failure {
                    subcheck: name.to_string(),
                    message: msg,
                    case: json!({ "index": idx, "case": sample_of(idx) }),
                    harness_fault: hf,
                });
            }
        }
    }
    let mut samples = Vec::new();
    if total > 0 {
        for idx in [0, total / 2, total - 1] {
            samples.push(json!({ "index": idx, "case": sample_of(idx) }));
        }
    }
    SubResult {
        name: name.to_string(),
        rule: rule.to_string(),
        stats,
        samples,
        exhaustive: exhaustive && failure.is_none(),
        failure,
        wall_s: t0.elapsed().as_secs_f64(),
        extra: BTreeMap::new(),
    }
}

/// A fixed list of hand-written / regression cases.
pub fn run_list<C, FE>(name: &str, rule: &str, cases: &[C], eval: FE) -> SubResult
where
    C: Debug + Clone + Serialize,
    FE: Fn(&C, &mut Stats) -> Result<(), String>,
{
    let t0 = Instant::now();
    let mut stats = Stats::default();
    let mut failure = None;
    let mut samples = Vec::new();
    for c in cases {
        stats.nt_flag = false;
        let r = catch_unwind(AssertUnwindSafe(|| eval(c, &mut stats)));
        stats.evaluations += 1;
        match r {
            Ok(Ok(())) => {
                if samples.len() < 3 {
                    samples.push(serde_json::to_value(c).unwrap_or(Value::Null));
                }
            }
            Ok(Err(msg)) => {
                failure = Some(Failure {
                    subcheck: name.to_string(),
                    message: msg,
                    case: serde_json::to_value(c).unwrap_or(Value::Null),
                    harness_fault: false,
                });
                break;
            }
            Err(_) => {
                let p = LAST_PANIC.with(|p| p.borrow_mut().take()).unwrap_or_default();
                let in_lib = panic_in_library(&p);
                failure = Some(Failure {
                    subcheck: name.to_string(),
                    message: if in_lib { format!("the library panicked on an in-contract call: {}", p) } else { format!("{}: {}", HARNESS_PANIC, p) },
                    case: serde_json::to_value(c).unwrap_or(Value::Null),
                    harness_fault: !in_lib,
                });
                break;
            }
        }
    }
    SubResult {
        name: name.to_string(),
        rule: rule.to_string(),
        stats,
        samples,
        exhaustive: false,
        failure,
        wall_s: t0.elapsed().as_secs_f64(),
        extra: BTreeMap::new(),
    }
}

// ------------------------------------------------------------------------------------------
// sub-check registry (run + replay)

pub struct SubCheck {
    pub name: &'static str,
    pub run: Box<dyn Fn(&Ctx) -> SubResult + Sync + Send>,
    /// replay one saved case: Ok(()) = passes now, Err(msg) = still fails
    pub replay: Box<dyn Fn(&Value) -> Result<(), String> + Sync + Send>,
}

/// Build a generated sub-check with a replay function derived from the same `eval`.
pub fn generated<C, S, FS, FE>(
    name: &'static str,
    rule: &'static str,
    cases: u64,
    strat: FS,
    eval: FE,
) -> SubCheck
where
    C: Debug + Clone + Serialize + DeserializeOwned + Send + 'static,
    S: Strategy<Value = C> + 'static,
    FS: Fn() -> S + Sync + Send + Clone + 'static,
    FE: Fn(&C, &mut Stats) -> Result<(), String> + Sync + Send + Clone + 'static,
{
    let eval2 = eval.clone();
    SubCheck {
        name,
        run: Box::new(move |ctx| run_generated(ctx, name, rule, cases, strat.clone(), eval.clone())),
        replay: Box::new(move |v| {
            let case: C = serde_json::from_value(v.clone()).map_err(|e| format!("cannot decode case: {}", e))?;
            let mut st = Stats::default();
            eval2(&case, &mut st)
        }),
    }
}

/// Build an enumerated sub-check; a case is identified by its index.
pub fn enumerated<FE, FSa>(
    name: &'static str,
    rule: &'static str,
    total: u64,
    exhaustive: bool,
    sample_of: FSa,
    eval_range: FE,
) -> SubCheck
where
    FE: Fn(u64, u64, &mut Stats) -> Result<(), (u64, String)> + Sync + Send + Clone + 'static,
    FSa: Fn(u64) -> Value + Sync + Send + Clone + 'static,
{
    let er = eval_range.clone();
    SubCheck {
        name,
        run: Box::new(move |ctx| {
            run_enumerated(ctx, name, rule, total, exhaustive, sample_of.clone(), eval_range.clone())
        }),
        replay: Box::new(move |v| {
            let idx = v["index"].as_u64().ok_or("no index in case")?;
            let mut st = Stats::default();
            er(idx, idx + 1, &mut st).map_err(|(_, m)| m)
        }),
    }
}

/// Build a fixed-list sub-check.
pub fn listed<C, FE>(name: &'static str, rule: &'static str, cases: Vec<C>, eval: FE) -> SubCheck
where
    C: Debug + Clone + Serialize + DeserializeOwned + Send + Sync + 'static,
    FE: Fn(&C, &mut Stats) -> Result<(), String> + Sync + Send + Clone + 'static,
{
    let eval2 = eval.clone();
    SubCheck {
        name,
        run: Box::new(move |_ctx| run_list(name, rule, &cases, eval.clone())),
        replay: Box::new(move |v| {
            let case: C = serde_json::from_value(v.clone()).map_err(|e| format!("cannot decode case: {}", e))?;
            let mut st = Stats::default();
            eval2(&case, &mut st)
        }),
    }
}

// ------------------------------------------------------------------------------------------
// small helpers for evals

#[macro_export]
macro_rules! ensure {
    ($cond:expr, $($arg:tt)*) => {
        if !($cond) {
            return Err(format!($($arg)*));
        }
    };
}

#[macro_export]
macro_rules! ensure_eq {
    ($a:expr, $b:expr, $($arg:tt)*) => {
        {
            let (a, b) = (&$a, &$b);
            if a != b {
                return Err(format!("{}: {:?} != {:?}", format!($($arg)*), a, b));
            }
        }
    };
}

/// monotone index mapping for shrink-friendly selection: i in 0..=65535 -> 0..len
pub fn pick_index(i: u16, len: usize) -> usize {
    if len == 0 {
        0
    } else {
        ((i as usize) * len) >> 16
    }
}
