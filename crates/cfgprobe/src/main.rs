//! cfgprobe - evaluates a corpus (one JSON line per case) with the *core* API of the library
//! built in ONE feature configuration and prints one canonical transcript line per case.
//! The driver (ffv check C14) compares transcripts across configurations byte for byte.
//!
//!   cfgprobe eval <corpus.jsonl>      transcript to stdout
//!   cfgprobe config                   name of the configuration this binary was built with
#![allow(deprecated)]

use corpus::{Line, Seg, H};
use ssdeep::internal_comparison::{BlockHashPositionArray, BlockHashPositionArrayImpl};
use ssdeep::{
    DualFuzzyHash, FuzzyHash, FuzzyHashCompareTarget, Generator, LongDualFuzzyHash, LongFuzzyHash, LongRawFuzzyHash,
    ParseErrorInfo, RawFuzzyHash,
};
use std::fmt::Write as _;
use std::io::{BufRead, Write};
use std::panic::{catch_unwind, AssertUnwindSafe};

fn config_name() -> &'static str {
    if cfg!(feature = "f-unsafe-reduce-fnv") {
        "unsafe+opt-reduce-fnv-table"
    } else if cfg!(feature = "f-unsafe") {
        "unsafe"
    } else if cfg!(feature = "f-unchecked") {
        "unchecked"
    } else if cfg!(feature = "f-reduce-fnv") {
        "opt-reduce-fnv-table"
    } else if cfg!(feature = "f-strict") {
        "strict-parser"
    } else if cfg!(feature = "f-nodefault") {
        "no-default-features"
    } else {
        "default"
    }
}

fn txt<T: std::fmt::Display, E: std::fmt::Debug>(r: Result<T, E>) -> String {
    match r {
        Ok(v) => format!("{}", v),
        Err(e) => format!("!{:?}", e),
    }
}

fn feed(g: &mut Generator, data: &[u8], chunks: &[(u8, u32)], k: &mut usize) {
    let mut pos = 0usize;
    while pos < data.len() {
        let (form, n) = if chunks.is_empty() { (0u8, u32::MAX) } else { chunks[*k % chunks.len()] };
        *k += 1;
        let n = (n as usize).max(1).min(data.len() - pos);
        let c = &data[pos..pos + n];
        match form % 4 {
            0 => {
                g.update(c);
            }
            1 => {
                g.update_by_iter(c.iter().copied());
            }
            2 => {
                for &b in c {
                    g.update_by_byte(b);
                }
            }
            _ => {
                *g += c;
            }
        }
        pos += n;
    }
}

fn eval_gen(segs: &[Seg], chunks: &[(u8, u32)], declare: u8, out: &mut String) {
    let total: u64 = segs
        .iter()
        .map(|s| match s {
            Seg::Bytes(b) => b.len() as u64,
            Seg::Zeros(z) => *z,
        })
        .fold(0u64, |a, b| a.saturating_add(b));
    let mut g = Generator::new();
    if declare % 3 == 1 {
        let _ = write!(out, "decl={:?};", g.set_fixed_input_size(total));
    }
    let mut k = 0usize;
    let mut all: Vec<u8> = Vec::new();
    let mut only_bytes = true;
    for s in segs {
        match s {
            Seg::Bytes(b) => {
                feed(&mut g, b, chunks, &mut k);
                all.extend_from_slice(b);
            }
            Seg::Zeros(z) => {
                g.verif_feed_zeroes(*z);
                only_bytes = false;
            }
        }
    }
    if declare % 3 == 2 {
        let _ = write!(out, "decl={:?};", g.set_fixed_input_size(total));
    }
    let _ = write!(
        out,
        "size={};warn={};f={};l={};r={};t={}",
        g.input_size(),
        g.may_warn_about_small_input_size(),
        txt(g.finalize()),
        txt(g.finalize_without_truncation()),
        txt(g.finalize_raw::<false, 64, 32>()),
        txt(g.finalize_raw::<true, 64, 64>()),
    );
    // the easy functions exist only with the feature; where they exist they must agree in-process
    #[cfg(feature = "has-easy")]
    {
        if only_bytes {
            let e = txt(ssdeep::hash_buf(&all));
            let mut fresh = Generator::new();
            fresh.update(&all);
            let f = txt(fresh.finalize());
            if e != f {
                let _ = write!(out, ";#EASY-MISMATCH# hash_buf={} generator={}", e, f);
            }
            let mut rd: &[u8] = &all;
            let s = match ssdeep::hash_stream(&mut rd) {
                Ok(h) => format!("{}", h),
                Err(e) => format!("!{}", e),
            };
            if s != f {
                let _ = write!(out, ";#EASY-MISMATCH# hash_stream={} generator={}", s, f);
            }
        }
    }
    let _ = only_bytes;
}

macro_rules! parse_plain {
    ($ty:ty, $name:expr, $text:expr, $out:expr) => {{
        let mut index = usize::MAX;
        match <$ty>::from_bytes_with_last_index($text, &mut index) {
            Ok(h) => {
                let _ = write!($out, "{}=OK,{},-,{},{};", $name, h, index, h.is_valid());
            }
            Err(e) => {
                let _ = write!($out, "{}=ERR,{:?},{:?},{},{};", $name, e.kind(), e.origin(), e.offset(), index);
            }
        }
    }};
}
macro_rules! parse_dual {
    ($ty:ty, $name:expr, $text:expr, $out:expr) => {{
        let mut index = usize::MAX;
        match <$ty>::from_bytes_with_last_index($text, &mut index) {
            Ok(h) => {
                let _ = write!($out, "{}=OK,{},{},{},{};", $name, h.as_normalized(), h.to_raw_form(), index, h.is_valid());
            }
            Err(e) => {
                let _ = write!($out, "{}=ERR,{:?},{:?},{},{};", $name, e.kind(), e.origin(), e.offset(), index);
            }
        }
    }};
}

fn eval_parse(text: &[u8], out: &mut String) {
    parse_plain!(RawFuzzyHash, "R", text, out);
    parse_plain!(LongRawFuzzyHash, "LR", text, out);
    parse_plain!(FuzzyHash, "N", text, out);
    parse_plain!(LongFuzzyHash, "LN", text, out);
    parse_dual!(DualFuzzyHash, "D", text, out);
    parse_dual!(LongDualFuzzyHash, "LD", text, out);
}

fn eval_obj(h: &H, other: &H, buf_len: u16, out: &mut String) {
    let lr = LongRawFuzzyHash::new_from_internals_near_raw(h.log, &h.bh1, &h.bh2);
    let mut o2 = other.bh2.clone();
    o2.truncate(64);
    let lo = LongRawFuzzyHash::new_from_internals_near_raw(other.log, &other.bh1, &o2);
    let ln = lr.normalize();
    let _ = write!(out, "lr={};ln={};valid={}/{};isnorm={};", lr, ln, lr.is_valid(), ln.is_valid(), lr.is_normalized());
    let mut ip = lr;
    ip.normalize_in_place();
    let _ = write!(out, "ip={};cn={};", ip, lr.clone_normalized());
    // narrowing into a used destination
    let mut dest = RawFuzzyHash::new_from_internals_near_raw(other.log, &other.bh1, &other.bh2[..other.bh2.len().min(32)]);
    let r = lr.try_into_mut_short(&mut dest);
    let _ = write!(out, "narrow={:?},{};", r, dest);
    let mut ndest = FuzzyHash::new();
    let r = ln.try_into_mut_short(&mut ndest);
    let _ = write!(out, "nnarrow={:?},{};", r, ndest);
    let _ = write!(out, "widen={};", dest.to_long_form());
    // dual round trip, fresh and into a used destination
    let d = LongDualFuzzyHash::from_raw_form(&lr);
    let mut d2 = LongDualFuzzyHash::from_raw_form(&lo);
    d2.init_from_raw_form(&lr);
    let _ = write!(out, "dual={},{},{},{},{};", d.to_raw_form(), d.as_normalized(), d.is_valid(), d == d2, d.is_normalized());
    let mut back = lo;
    d.into_mut_raw_form(&mut back);
    let _ = write!(out, "back={},{};", back, back.full_eq(&lr));
    // text into a caller buffer
    let mut buf = vec![0xAAu8; buf_len as usize % 160];
    let r = lr.store_into_bytes(&mut buf);
    let _ = write!(out, "store={:?},{:02x?};len={};", r, &buf[..buf.len().min(12)], lr.len_in_str());
    // Eq / Ord
    let _ = write!(out, "eq={};cmp={:?};dcmp={:?};", lr == lo, lr.cmp(&lo), d.cmp(&LongDualFuzzyHash::from_raw_form(&lo)));
    // the formatting trait with width / precision / fill specifications (whatever it does with them, every
    // configuration must do the same)
    let _ = write!(out, "fmt={:.8}|{:>40}|{:*<5}|{:^12.3};", lr, ln, lr, ln);
    // parse back
    let t = format!("{}", lr);
    let _ = write!(out, "reparse={};", txt(t.parse::<LongRawFuzzyHash>()));
    #[cfg(feature = "has-unchecked")]
    unsafe {
        // unchecked twins on in-contract arguments must agree with the checked ones
        let a1 = *lr.block_hash_1_as_array();
        let a2 = *lr.block_hash_2_as_array();
        let u1 = LongRawFuzzyHash::new_from_internals_near_raw_unchecked(h.log, &h.bh1, &h.bh2);
        let u2 = LongRawFuzzyHash::new_from_internals_unchecked(lr.block_size(), &h.bh1, &h.bh2);
        let u3 = LongRawFuzzyHash::new_from_internals_raw_unchecked(h.log, &a1, &a2, h.bh1.len() as u8, h.bh2.len() as u8);
        let mut u4 = lo;
        u4.init_from_internals_raw_unchecked(h.log, &a1, &a2, h.bh1.len() as u8, h.bh2.len() as u8);
        let c3 = LongRawFuzzyHash::new_from_internals_raw(h.log, &a1, &a2, h.bh1.len() as u8, h.bh2.len() as u8);
        let ud1 = LongDualFuzzyHash::new_from_internals_near_raw_unchecked(h.log, &h.bh1, &h.bh2);
        let ud2 = LongDualFuzzyHash::new_from_internals_unchecked(lr.block_size(), &h.bh1, &h.bh2);
        let ok = u1.full_eq(&lr)
            && u2.full_eq(&lr)
            && u3.full_eq(&lr)
            && u4.full_eq(&lr)
            && c3.full_eq(&lr)
            && ud1 == d
            && ud2 == d
            && ssdeep::block_size::from_log_unchecked(h.log) == lr.block_size()
            && ssdeep::block_size::log_from_valid_unchecked(lr.block_size()) == h.log;
        if !ok {
            let _ = write!(out, "#UNCHECKED-MISMATCH#(constructors);");
        }
    }
}

fn eval_cmp(a: &H, b: &H, out: &mut String) {
    let ra = LongRawFuzzyHash::new_from_internals_near_raw(a.log, &a.bh1, &a.bh2);
    let rb = LongRawFuzzyHash::new_from_internals_near_raw(b.log, &b.bh1, &b.bh2);
    let (na, nb) = (ra.normalize(), rb.normalize());
    let t = FuzzyHashCompareTarget::from(&na);
    let mut reused = FuzzyHashCompareTarget::from(&nb);
    reused.init_from(&na);
    let db = LongDualFuzzyHash::from_raw_form(&rb);
    let _ = write!(
        out,
        "hh={};hd={};t={};tr={};td={};cand={};equiv={};",
        na.compare(&nb),
        na.compare(&db),
        t.compare(&nb),
        reused.compare(&nb),
        t.compare(&db),
        t.is_comparison_candidate(&nb),
        t.is_equiv(&nb)
    );
    let mut pa = BlockHashPositionArray::new();
    pa.init_from(na.block_hash_1());
    let _ = write!(
        out,
        "ed={};cs={};pe={};w1={};w2={};",
        pa.edit_distance(nb.block_hash_1()),
        pa.has_common_substring(nb.block_hash_1()),
        pa.is_equiv(nb.block_hash_1()),
        na.block_hash_1_index_windows().fold(0u64, |x, y| x.wrapping_mul(1_000_003) ^ y),
        nb.block_hash_2_index_windows().fold(0u64, |x, y| x.wrapping_mul(1_000_003) ^ y),
    );
    #[cfg(feature = "has-easy")]
    {
        let s = match ssdeep::compare(&format!("{}", ra), &format!("{}", rb)) {
            Ok(v) => format!("{}", v),
            Err(e) => format!("!{}", e),
        };
        if s != format!("{}", na.compare(&nb)) {
            let _ = write!(out, "#EASY-MISMATCH# compare()={};", s);
        }
    }
    #[cfg(feature = "has-unchecked")]
    unsafe {
        use ssdeep::internal_comparison::BlockHashPositionArrayImplUnchecked;
        let score = t.compare(&nb);
        let equiv = t.is_equiv(&nb);
        let mut ok = true;
        match b.log as i32 - a.log as i32 {
            0 => {
                ok &= t.compare_near_eq_unchecked(&nb) == score;
                ok &= t.is_comparison_candidate_near_eq_unchecked(&nb) == t.is_comparison_candidate(&nb);
                if !equiv {
                    ok &= t.compare_unequal_near_eq_unchecked(&nb) == score;
                }
            }
            1 => {
                ok &= t.compare_unequal_near_lt_unchecked(&nb) == score;
                ok &= t.is_comparison_candidate_near_lt_unchecked(&nb) == t.is_comparison_candidate(&nb);
            }
            -1 => {
                ok &= t.compare_unequal_near_gt_unchecked(&nb) == score;
                ok &= t.is_comparison_candidate_near_gt_unchecked(&nb) == t.is_comparison_candidate(&nb);
            }
            _ => {}
        }
        if !equiv {
            ok &= t.compare_unequal_unchecked(&nb) == score;
            ok &= na.compare_unequal_unchecked(&nb) == score;
        }
        let o1 = nb.block_hash_1();
        ok &= pa.is_equiv_unchecked(o1) == pa.is_equiv(o1);
        ok &= pa.has_common_substring_unchecked(o1) == pa.has_common_substring(o1);
        ok &= pa.edit_distance_unchecked(o1) == pa.edit_distance(o1);
        ok &= pa.score_strings_raw_unchecked(o1) == pa.score_strings_raw(o1);
        ok &= pa.score_strings_unchecked(o1, a.log) == pa.score_strings(o1, a.log);
        let (l1, l2) = (na.block_hash_1_len() as u8, o1.len() as u8);
        if l1 >= 7 && l2 >= 7 {
            let d = pa.edit_distance(o1);
            if d <= l1 as u32 + l2 as u32 - 14 {
                ok &= FuzzyHashCompareTarget::raw_score_by_edit_distance_unchecked(l1, l2, d) == FuzzyHashCompareTarget::raw_score_by_edit_distance(l1, l2, d);
            }
        }
        if a.log < FuzzyHashCompareTarget::LOG_BLOCK_SIZE_CAPPING_BORDER {
            ok &= FuzzyHashCompareTarget::score_cap_on_block_hash_comparison_unchecked(a.log, l1, l2) == FuzzyHashCompareTarget::score_cap_on_block_hash_comparison(a.log, l1, l2);
        }
        if !ok {
            let _ = write!(out, "#UNCHECKED-MISMATCH#(compare);");
        }
    }
}

fn eval_line(line: &str) -> String {
    let parsed: Result<Line, _> = serde_json::from_str(line);
    let l = match parsed {
        Ok(l) => l,
        Err(e) => return format!("#BADLINE# {}", e),
    };
    let r = catch_unwind(AssertUnwindSafe(|| {
        let mut out = String::new();
        match &l {
            Line::Gen { segs, chunks, declare } => {
                out.push_str("G|");
                eval_gen(segs, chunks, *declare, &mut out)
            }
            Line::Parse { text } => {
                out.push_str("P|");
                eval_parse(text, &mut out)
            }
            Line::Obj { h, other, buf_len } => {
                out.push_str("O|");
                eval_obj(h, other, *buf_len, &mut out)
            }
            Line::Cmp { a, b } => {
                out.push_str("C|");
                eval_cmp(a, b, &mut out)
            }
        }
        out
    }));
    match r {
        Ok(s) => s,
        Err(_) => "#PANIC#".to_string(),
    }
}

fn main() {
    std::panic::set_hook(Box::new(|_| {}));
    let args: Vec<String> = std::env::args().collect();
    match args.get(1).map(|s| s.as_str()) {
        Some("config") => println!("{}/{}", config_name(), if cfg!(debug_assertions) { "relda" } else { "release" }),
        Some("eval") => {
            let f = std::fs::File::open(&args[2]).expect("corpus file");
            let stdout = std::io::stdout();
            let mut w = std::io::BufWriter::new(stdout.lock());
            for line in std::io::BufReader::new(f).lines() {
                let line = line.expect("read");
                if line.is_empty() {
                    continue;
                }
                let _ = writeln!(w, "{}", eval_line(&line));
            }
        }
        _ => {
            eprintln!("usage: cfgprobe eval <corpus.jsonl> | cfgprobe config");
            std::process::exit(2);
        }
    }
}
