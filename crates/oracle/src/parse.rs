//! Reference recogniser / decoder of the fuzzy-hash text grammar.

use crate::fmt::{b64_index, collapse};

#[derive(Debug, Clone, Copy, PartialEq, Eq)]
pub enum Origin {
    BlockSize,
    BlockHash1,
    BlockHash2,
}

#[derive(Debug, Clone, PartialEq, Eq)]
pub struct Parsed {
    pub log: u8,
    /// raw symbols as written
    pub bh1: Vec<u8>,
    pub bh2: Vec<u8>,
    /// index of the comma, or the text length
    pub end: usize,
}

#[derive(Debug, Clone, Copy, PartialEq, Eq)]
pub enum Counting {
    /// capacity applies to the characters as written
    Raw,
    /// capacity applies after collapsing runs longer than three
    Collapsed,
}

/// canonical decimal of one of the 31 valid block sizes -> log
pub fn block_size_log(field: &[u8]) -> Option<u8> {
    for log in 0u8..31 {
        let s = (3u64 << log).to_string();
        if s.as_bytes() == field {
            return Some(log);
        }
    }
    None
}

/// Also reports, for diagnostics/classification, how long (raw) each reached block-hash field is.
#[derive(Debug, Clone, Default, PartialEq, Eq)]
pub struct FieldInfo {
    pub bh1_raw: Option<usize>,
    pub bh2_raw: Option<usize>,
    pub bh1_col: Option<usize>,
    pub bh2_col: Option<usize>,
}

pub fn parse_ref(
    text: &[u8],
    cap1: usize,
    cap2: usize,
    counting: Counting,
) -> (Result<Parsed, Origin>, FieldInfo) {
    let mut info = FieldInfo::default();
    // ---- block size: everything up to the first ':' must be a canonical valid block size
    let mut p = 0usize;
    while p < text.len() && text[p].is_ascii_digit() {
        p += 1;
    }
    if p >= text.len() || text[p] != b':' {
        return (Err(Origin::BlockSize), info);
    }
    let log = match block_size_log(&text[..p]) {
        Some(l) => l,
        None => return (Err(Origin::BlockSize), info),
    };
    p += 1;
    // ---- block hash 1
    let s1 = p;
    while p < text.len() && b64_index(text[p]).is_some() {
        p += 1;
    }
    let bh1: Vec<u8> = text[s1..p].iter().map(|&c| b64_index(c).unwrap()).collect();
    info.bh1_raw = Some(bh1.len());
    info.bh1_col = Some(collapse(&bh1).len());
    let n1 = match counting {
        Counting::Raw => bh1.len(),
        Counting::Collapsed => collapse(&bh1).len(),
    };
    if n1 > cap1 {
        return (Err(Origin::BlockHash1), info);
    }
    if p >= text.len() || text[p] != b':' {
        return (Err(Origin::BlockHash1), info);
    }
    p += 1;
    // ---- block hash 2
    let s2 = p;
    while p < text.len() && b64_index(text[p]).is_some() {
        p += 1;
    }
    let bh2: Vec<u8> = text[s2..p].iter().map(|&c| b64_index(c).unwrap()).collect();
    info.bh2_raw = Some(bh2.len());
    info.bh2_col = Some(collapse(&bh2).len());
    let n2 = match counting {
        Counting::Raw => bh2.len(),
        Counting::Collapsed => collapse(&bh2).len(),
    };
    if n2 > cap2 {
        return (Err(Origin::BlockHash2), info);
    }
    if p < text.len() && text[p] != b',' {
        return (Err(Origin::BlockHash2), info);
    }
    (
        Ok(Parsed {
            log,
            bh1,
            bh2,
            end: p,
        }),
        info,
    )
}
