//! Seven-byte "trigger words": strings whose rolling hash r satisfies (r+1) = 3 * 2^k * odd,
//! i.e. feeding one ends a piece at levels 0..=k and at no higher level, whatever precedes it
//! (the rolling hash depends on the last seven bytes only).
//!
//! Found by a structured search: r = X + S where X is the xor-fold (byte i contributes at bit
//! 5*(6-i)) and S < 2^14 the two sums.  The five oldest bytes fix bits >= 13 of X, so they are
//! sampled until the top 18 bits of X are compatible with a chosen target, then the last two
//! bytes are enumerated.

use crate::gen::roll_def;

/// tiny deterministic PRNG (splitmix64) - used for word search and for `Rand` tokens, always
/// seeded from a value that the property-testing library generated.
#[derive(Clone)]
pub struct SplitMix(pub u64);

impl SplitMix {
    #[inline]
    pub fn next(&mut self) -> u64 {
        self.0 = self.0.wrapping_add(0x9E37_79B9_7F4A_7C15);
        let mut z = self.0;
        z = (z ^ (z >> 30)).wrapping_mul(0xBF58_476D_1CE4_E5B9);
        z = (z ^ (z >> 27)).wrapping_mul(0x94D0_49BB_1331_11EB);
        z ^ (z >> 31)
    }
    pub fn fill(&mut self, out: &mut [u8]) {
        for chunk in out.chunks_mut(8) {
            let v = self.next().to_le_bytes();
            chunk.copy_from_slice(&v[..chunk.len()]);
        }
    }
}

/// level of a rolling value: Some(k) when it ends a piece at levels 0..=k (k capped at 30)
pub fn trigger_level(r: u32) -> Option<u8> {
    let r1 = r.wrapping_add(1);
    if r1 == 0 || r1 % 3 != 0 {
        return None;
    }
    Some(core::cmp::min(30, (r1 / 3).trailing_zeros()) as u8)
}

/// Find a 7-byte word with exactly rolling value `target`.
pub fn find_word_for_value(target: u32, rng: &mut SplitMix) -> Option<[u8; 7]> {
    let want_hi = target >> 14;
    for _ in 0..(1u32 << 22) {
        let v = rng.next().to_le_bytes();
        let mut w = [v[0], v[1], v[2], v[3], v[4], 0u8, 0u8];
        let x_hi = {
            let mut x: u32 = 0;
            for i in 0..5 {
                x ^= (w[i] as u32) << (5 * (6 - i) as u32);
            }
            x >> 14
        };
        // X's bits 14.. come from the first five bytes only (byte 5 reaches bit 12);
        // adding S < 2^14 and the low 14 bits can carry at most 1 into bit 14.
        if x_hi != want_hi && x_hi.wrapping_add(1) & 0x3ffff != want_hi {
            continue;
        }
        for b5 in 0..=255u8 {
            w[5] = b5;
            for b6 in 0..=255u8 {
                w[6] = b6;
                if roll_def(&w) == target {
                    return Some(w);
                }
            }
        }
    }
    None
}

/// Find a word of exactly level `k` (0..=30).
pub fn find_word(level: u8, rng: &mut SplitMix) -> [u8; 7] {
    assert!(level <= 30);
    loop {
        // choose a target r with r+1 = 3 * 2^k * odd
        let unit: u64 = 3u64 << level;
        let max_mult = (1u64 << 32) / unit; // multiples m*unit with m*unit <= 2^32 - 1
        let target: u32 = if level == 30 {
            0xBFFF_FFFF
        } else {
            let mut m = rng.next() % max_mult.max(1);
            m |= 1; // odd
            if m * unit > u32::MAX as u64 {
                continue;
            }
            (m * unit - 1) as u32
        };
        debug_assert_eq!(trigger_level(target), Some(level));
        if let Some(w) = find_word_for_value(target, rng) {
            assert_eq!(roll_def(&w), target);
            assert_eq!(trigger_level(roll_def(&w)), Some(level));
            return w;
        }
    }
}

/// A word whose rolling hash is 0xffffffff (r+1 wraps to 0: must *not* end a piece).
pub fn find_word_ff(rng: &mut SplitMix) -> [u8; 7] {
    loop {
        if let Some(w) = find_word_for_value(0xFFFF_FFFF, rng) {
            return w;
        }
    }
}

/// The repository's own level-30 word.
pub const REPO_LEVEL30_WORD: [u8; 7] = *b"`]]]_CT";

pub struct WordTable {
    /// words[k] = words of exactly level k
    pub words: Vec<Vec<[u8; 7]>>,
    pub ff: Vec<[u8; 7]>,
    /// non-zero windows whose rolling value is 0 (indistinguishable from a run of zeros by the value alone)
    pub zero: Vec<[u8; 7]>,
}

impl WordTable {
    pub fn build(seed: u64, variants: usize) -> Self {
        let mut rng = SplitMix(seed ^ 0x7072_6f67_7261_6d73);
        let mut words = Vec::new();
        for k in 0..=30u8 {
            let mut v = Vec::new();
            for _ in 0..variants {
                v.push(find_word(k, &mut rng));
            }
            if k == 30 {
                v.push(REPO_LEVEL30_WORD);
            }
            words.push(v);
        }
        let ff = (0..2).map(|_| find_word_ff(&mut rng)).collect();
        let mut zero = Vec::new();
        while zero.len() < 3 {
            if let Some(w) = find_word_for_value(0, &mut rng) {
                if w[6] != 0 && w.iter().filter(|&&b| b != 0).count() >= 4 {
                    assert_eq!(roll_def(&w), 0);
                    zero.push(w);
                }
            }
        }
        WordTable { words, ff, zero }
    }
}
