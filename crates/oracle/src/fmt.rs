//! Reference formatter / base64 alphabet / run collapsing.

pub const B64: &[u8; 64] = b"ABCDEFGHIJKLMNOPQRSTUVWXYZabcdefghijklmnopqrstuvwxyz0123456789+/";

pub fn b64_index(c: u8) -> Option<u8> {
    match c {
        b'A'..=b'Z' => Some(c - b'A'),
        b'a'..=b'z' => Some(c - b'a' + 26),
        b'0'..=b'9' => Some(c - b'0' + 52),
        b'+' => Some(62),
        b'/' => Some(63),
        _ => None,
    }
}

pub fn block_size_of(log: u8) -> u64 {
    3u64 << log
}

pub fn symbols_to_string(bh: &[u8]) -> String {
    bh.iter().map(|&s| B64[(s & 63) as usize] as char).collect()
}

pub fn format_hash(log: u8, bh1: &[u8], bh2: &[u8]) -> String {
    format!(
        "{}:{}:{}",
        block_size_of(log),
        symbols_to_string(bh1),
        symbols_to_string(bh2)
    )
}

/// Collapse every run of more than three identical symbols to exactly three.
pub fn collapse(bh: &[u8]) -> Vec<u8> {
    let mut out: Vec<u8> = Vec::with_capacity(bh.len());
    for &s in bh {
        let n = out.len();
        if n >= 3 && out[n - 1] == s && out[n - 2] == s && out[n - 3] == s {
            continue;
        }
        out.push(s);
    }
    out
}

pub fn is_collapsed(bh: &[u8]) -> bool {
    bh.windows(4).all(|w| !(w[0] == w[1] && w[1] == w[2] && w[2] == w[3]))
}

/// Runs of a string as (symbol, length).
pub fn runs(bh: &[u8]) -> Vec<(u8, usize)> {
    let mut v: Vec<(u8, usize)> = Vec::new();
    for &s in bh {
        match v.last_mut() {
            Some((c, n)) if *c == s => *n += 1,
            _ => v.push((s, 1)),
        }
    }
    v
}

/// Number of RLE entries the dual encoding needs for a raw block hash
/// (one entry per started group of 4 extra characters of each run longer than 3).
pub fn rle_entries_needed(bh: &[u8]) -> usize {
    runs(bh)
        .iter()
        .filter(|(_, n)| *n > 3)
        .map(|(_, n)| (n - 3 + 3) / 4)
        .sum()
}

/// Canonical RLE block for a raw block hash, from first principles:
/// entry = (position of the last character of the collapsed run) | ((extra-1) << 6),
/// extra characters beyond three are emitted in groups 4,4,...,remainder.
pub fn rle_encode(bh: &[u8], table: usize) -> Option<Vec<u8>> {
    let mut out: Vec<u8> = Vec::new();
    let mut pos_out = 0usize; // length of the collapsed prefix so far
    for (_, n) in runs(bh) {
        let kept = core::cmp::min(n, 3);
        pos_out += kept;
        if n > 3 {
            let mut extra = n - 3;
            let pos = pos_out - 1;
            while extra > 0 {
                let g = core::cmp::min(extra, 4);
                out.push(pos as u8 | (((g - 1) as u8) << 6));
                extra -= g;
            }
        }
    }
    if out.len() > table {
        return None;
    }
    out.resize(table, 0);
    Some(out)
}

/// Expand (collapsed, rle) back into a raw string; None when the RLE data are not a canonical
/// encoding of some raw string of at most `cap` symbols.
pub fn rle_decode_checked(norm: &[u8], rle: &[u8], cap: usize) -> Option<Vec<u8>> {
    if !is_collapsed(norm) || norm.iter().any(|&s| s >= 64) {
        return None;
    }
    // split the entries off the zero tail
    let used = rle.iter().position(|&e| e == 0).unwrap_or(rle.len());
    if rle[used..].iter().any(|&e| e != 0) {
        return None;
    }
    let mut extra_at = vec![0usize; norm.len()];
    for &e in &rle[..used] {
        let pos = (e & 63) as usize;
        let len = (e >> 6) as usize + 1;
        if pos >= norm.len() {
            return None;
        }
        extra_at[pos] += len;
    }
    let mut raw: Vec<u8> = Vec::new();
    for (i, &s) in norm.iter().enumerate() {
        raw.push(s);
        for _ in 0..extra_at[i] {
            raw.push(s);
        }
    }
    if raw.len() > cap {
        return None;
    }
    // canonical: re-encoding reproduces exactly the same bytes, and collapsing gives `norm`
    if collapse(&raw) != norm {
        return None;
    }
    match rle_encode(&raw, rle.len()) {
        Some(enc) if enc == rle => Some(raw),
        _ => None,
    }
}
