//! Port of ssdeep 2.14.1 `fuzzy_compare` / `score_strings` working on texts, plus the
//! textbook helpers (LCS by dynamic programming, naive common 7-gram search).

use crate::fmt::{b64_index, collapse};

/// Length of the longest common subsequence (textbook DP).
pub fn lcs_len(a: &[u8], b: &[u8]) -> usize {
    let mut prev = vec![0usize; b.len() + 1];
    let mut cur = vec![0usize; b.len() + 1];
    for i in 1..=a.len() {
        for j in 1..=b.len() {
            cur[j] = if a[i - 1] == b[j - 1] {
                prev[j - 1] + 1
            } else {
                core::cmp::max(prev[j], cur[j - 1])
            };
        }
        core::mem::swap(&mut prev, &mut cur);
    }
    prev[b.len()]
}

/// insert/delete edit distance
pub fn indel_distance(a: &[u8], b: &[u8]) -> usize {
    a.len() + b.len() - 2 * lcs_len(a, b)
}

/// naive: is there a common contiguous substring of length 7?
pub fn has_common_7gram(a: &[u8], b: &[u8]) -> bool {
    if a.len() < 7 || b.len() < 7 {
        return false;
    }
    for i in 0..=a.len() - 7 {
        for j in 0..=b.len() - 7 {
            if a[i..i + 7] == b[j..j + 7] {
                return true;
            }
        }
    }
    false
}

/// ssdeep's scaling of the edit distance into 0..=100 (no cap).
pub fn raw_score(l1: usize, l2: usize, d: usize) -> u32 {
    let s = (d * 64) / (l1 + l2);
    (100 - (100 * s) / 64) as u32
}

/// score_strings(s1, s2, block_size)
pub fn score_strings(a: &[u8], b: &[u8], block_size: u64) -> u32 {
    if a.len() > 64 || b.len() > 64 {
        return 0;
    }
    if !has_common_7gram(a, b) {
        return 0;
    }
    let d = indel_distance(a, b);
    let mut score = raw_score(a.len(), b.len(), d);
    // (99 + ROLLING_WINDOW) / ROLLING_WINDOW * MIN_BLOCKSIZE = 45
    if block_size >= 45 {
        return score;
    }
    let cap = (block_size / 3) * core::cmp::min(a.len(), b.len()) as u64;
    if (score as u64) > cap {
        score = cap as u32;
    }
    score
}

#[derive(Debug, Clone, PartialEq, Eq)]
pub struct SplitHash {
    pub block_size: u64,
    pub bh1: Vec<u8>,
    pub bh2: Vec<u8>,
}

/// Split a *well-formed* text `bs:bh1:bh2[,rest]` into numbers and symbols (no capacity checks).
pub fn split_text(t: &str) -> Option<SplitHash> {
    let b = t.as_bytes();
    let c1 = b.iter().position(|&c| c == b':')?;
    let block_size: u64 = t[..c1].parse().ok()?;
    let rest = &b[c1 + 1..];
    let c2 = rest.iter().position(|&c| c == b':')?;
    let bh1: Option<Vec<u8>> = rest[..c2].iter().map(|&c| b64_index(c)).collect();
    let rest2 = &rest[c2 + 1..];
    let end = rest2.iter().position(|&c| c == b',').unwrap_or(rest2.len());
    let bh2: Option<Vec<u8>> = rest2[..end].iter().map(|&c| b64_index(c)).collect();
    Some(SplitHash {
        block_size,
        bh1: bh1?,
        bh2: bh2?,
    })
}

/// fuzzy_compare on already split hashes (raw symbols; run collapsing is done here).
pub fn compare_split(x: &SplitHash, y: &SplitHash) -> u32 {
    let (bs1, bs2) = (x.block_size, y.block_size);
    if bs1 != bs2 && bs1 * 2 != bs2 && bs2 * 2 != bs1 {
        return 0;
    }
    let x1 = collapse(&x.bh1);
    let x2 = collapse(&x.bh2);
    let y1 = collapse(&y.bh1);
    let y2 = collapse(&y.bh2);
    if bs1 == bs2 && x1 == y1 && x2 == y2 {
        return 100;
    }
    if bs1 == bs2 {
        let s1 = score_strings(&x1, &y1, bs1);
        let s2 = score_strings(&x2, &y2, bs1 * 2);
        core::cmp::max(s1, s2)
    } else if bs1 * 2 == bs2 {
        score_strings(&y1, &x2, bs2)
    } else {
        score_strings(&x1, &y2, bs1)
    }
}

pub fn compare_texts(a: &str, b: &str) -> Option<u32> {
    Some(compare_split(&split_text(a)?, &split_text(b)?))
}
