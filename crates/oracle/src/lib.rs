//! Reference models ("oracles") for the ffuzzy verification harness.
//! Nothing in this crate depends on a4lg/ffuzzy.

pub mod cmp;
pub mod fmt;
pub mod gen;
pub mod parse;
pub mod words;

/// FNV-1a 64 used for case fingerprints (deterministic, no std RandomState)
pub fn fingerprint(bytes: &[u8]) -> u64 {
    let mut h: u64 = 0xcbf2_9ce4_8422_2325;
    for &b in bytes {
        h ^= b as u64;
        h = h.wrapping_mul(0x0000_0100_0000_01b3);
    }
    h
}
