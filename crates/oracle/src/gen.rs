//! Reference models of the ssdeep 2.14.1 generator.  No code from a4lg/ffuzzy is used here.
//!
//! * Model A: the definition executed literally (no streaming optimisations, no elimination,
//!   no fork limit, no roll mask).
//! * Model B: a port of libfuzzy's `fuzzy.c` (engine step, fork, reduce, set_total_input_length,
//!   digest with / without FUZZY_FLAG_NOTRUNC).
//!
//! Both accept a *virtual* prefix of `Z` zero bytes in O(log Z).

pub const FNV_INIT: u32 = 0x2802_1967;
pub const FNV_PRIME: u32 = 0x0100_0193;
pub const NUM_LEVELS: usize = 31;
pub const SPAMSUM_LENGTH: usize = 64;
pub const MIN_BLOCKSIZE: u64 = 3;
pub const MAX_INPUT_SIZE: u64 = (MIN_BLOCKSIZE << 30) * SPAMSUM_LENGTH as u64; // 192 GiB
pub const ROLLING_WINDOW: usize = 7;

#[inline(always)]
pub fn fnv_step(h: u32, c: u8) -> u32 {
    h.wrapping_mul(FNV_PRIME) ^ (c as u32)
}

/// FNV-1 (32 bit, init 0x28021967) over a byte string.
pub fn fnv32(data: &[u8]) -> u32 {
    data.iter().fold(FNV_INIT, |h, &c| fnv_step(h, c))
}

fn pow_u32(mut base: u32, mut exp: u64) -> u32 {
    let mut acc: u32 = 1;
    while exp > 0 {
        if exp & 1 == 1 {
            acc = acc.wrapping_mul(base);
        }
        base = base.wrapping_mul(base);
        exp >>= 1;
    }
    acc
}

/// FNV state after `z` zero bytes: every zero byte multiplies the state by the prime.
pub fn fnv_after_zeros(z: u64) -> u32 {
    FNV_INIT.wrapping_mul(pow_u32(FNV_PRIME, z))
}

/// FNV-1 over a segmented input (zero runs in closed form).
pub fn fnv32_segs(segs: &[Seg]) -> u32 {
    let mut h = FNV_INIT;
    for s in segs {
        match s {
            Seg::Bytes(b) => h = b.iter().fold(h, |h, &c| fnv_step(h, c)),
            Seg::Zeros(n) => h = h.wrapping_mul(pow_u32(FNV_PRIME, *n)),
        }
    }
    h
}

/// Rolling hash by its closed formula over a 7-byte window (oldest byte first, zero padded
/// on the left when fewer than seven bytes exist).
pub fn roll_def(w: &[u8; 7]) -> u32 {
    let mut s: u32 = 0;
    let mut ws: u32 = 0;
    let mut x: u32 = 0;
    for i in 0..7 {
        let c = w[i] as u32;
        s = s.wrapping_add(c);
        ws = ws.wrapping_add((i as u32 + 1).wrapping_mul(c));
        // the largest shift is 30: the oldest byte keeps only its two low bits
        x ^= c << (5 * (6 - i) as u32);
    }
    s.wrapping_add(ws).wrapping_add(x)
}

/// Window of the last seven bytes of `data[..=pos]` (zero padded: a zero-byte prefix is
/// indistinguishable from padding).
#[inline]
pub fn window_at(data: &[u8], pos: usize) -> [u8; 7] {
    let mut w = [0u8; 7];
    for k in 0..7 {
        // w[6-k] = data[pos-k]
        if pos >= k {
            w[6 - k] = data[pos - k];
        }
    }
    w
}

/// Rolling value after all of `data` (0 for the empty string).
pub fn roll_of(data: &[u8]) -> u32 {
    if data.is_empty() {
        0
    } else {
        roll_def(&window_at(data, data.len() - 1))
    }
}

#[derive(Debug, Clone, PartialEq, Eq)]
pub struct GenOut {
    /// block size = 3 << log
    pub log: u8,
    pub bh1: Vec<u8>,
    /// block hash 2, truncated form (<= 32)
    pub bh2_trunc: Vec<u8>,
    /// block hash 2, FUZZY_FLAG_NOTRUNC form (<= 64)
    pub bh2_full: Vec<u8>,
}

#[derive(Debug, Clone, Default, PartialEq, Eq)]
pub struct GenStats {
    /// pieces (boundaries) seen at the selected level / the next one
    pub cnt_sel: u64,
    pub cnt_next: u64,
    /// highest existing level
    pub top: u8,
    /// rolling value at the end is zero
    pub rend_zero: bool,
    /// model B: number of eliminated levels (bhstart)
    pub eliminated: u8,
    /// model B: last-hash active
    pub lasth: bool,
    /// initial block size index from the size alone
    pub initial_index: u8,
}

#[derive(Debug, Clone, Copy, PartialEq, Eq)]
pub enum GenErr {
    InputSizeTooLarge,
    FixedSizeMismatch,
}

/// smallest i with 192 * 2^i >= n  (0 for n <= 192)
pub fn initial_index(n: u64) -> usize {
    let mut i = 0usize;
    while i < 63 && ((MIN_BLOCKSIZE << i) as u128) * (SPAMSUM_LENGTH as u128) < n as u128 {
        i += 1;
    }
    i
}

// ------------------------------------------------------------------------------------------
// Model A

/// A piece of input: literal bytes or a (possibly huge) run of zero bytes.
#[derive(Debug, Clone, PartialEq, Eq)]
pub enum Seg<'a> {
    Bytes(&'a [u8]),
    Zeros(u64),
}

pub fn segs_len(segs: &[Seg]) -> Option<u64> {
    let mut n: u64 = 0;
    for s in segs {
        n = n.checked_add(match s {
            Seg::Bytes(b) => b.len() as u64,
            Seg::Zeros(z) => *z,
        })?;
    }
    Some(n)
}

struct StateA {
    whole: u32,
    full: [u32; NUM_LEVELS],
    half: [u32; NUM_LEVELS],
    cnt: [u64; NUM_LEVELS],
    pieces: Vec<Vec<u8>>,
    tail_full: [Option<u8>; NUM_LEVELS],
    tail_half: [Option<u8>; NUM_LEVELS],
    /// the last seven bytes, oldest first
    window: [u8; 7],
}

impl StateA {
    fn byte(&mut self, c: u8) {
        self.whole = fnv_step(self.whole, c);
        for i in 0..NUM_LEVELS {
            self.full[i] = fnv_step(self.full[i], c);
            self.half[i] = fnv_step(self.half[i], c);
        }
        self.window.copy_within(1..7, 0);
        self.window[6] = c;
        let r1 = roll_def(&self.window).wrapping_add(1);
        if r1 == 0 || r1 % 3 != 0 {
            return;
        }
        let t = core::cmp::min(30, (r1 / 3).trailing_zeros() as usize);
        for i in 0..=t {
            self.cnt[i] += 1;
            if self.cnt[i] <= 63 {
                self.pieces[i].push((self.full[i] & 63) as u8);
                self.full[i] = FNV_INIT;
                self.tail_half[i] = Some((self.half[i] & 63) as u8);
                if self.cnt[i] < 32 {
                    self.half[i] = FNV_INIT;
                    self.tail_half[i] = None;
                }
            } else {
                self.tail_full[i] = Some((self.full[i] & 63) as u8);
                self.tail_half[i] = Some((self.half[i] & 63) as u8);
            }
        }
    }
    /// n zero bytes while the window already holds seven zeros: the rolling value is 0,
    /// 0 + 1 is not a multiple of 3, so no boundary; every FNV state is multiplied by prime^n.
    fn quiet_zeros(&mut self, n: u64) {
        debug_assert!(self.window == [0u8; 7]);
        let m = pow_u32(FNV_PRIME, n);
        self.whole = self.whole.wrapping_mul(m);
        for i in 0..NUM_LEVELS {
            self.full[i] = self.full[i].wrapping_mul(m);
            self.half[i] = self.half[i].wrapping_mul(m);
        }
    }
}

pub fn model_a_segs(segs: &[Seg]) -> Result<(GenOut, GenStats), GenErr> {
    let n = segs_len(segs).ok_or(GenErr::InputSizeTooLarge)?;
    if n > MAX_INPUT_SIZE {
        return Err(GenErr::InputSizeTooLarge);
    }
    let mut s = StateA {
        whole: FNV_INIT,
        full: [FNV_INIT; NUM_LEVELS],
        half: [FNV_INIT; NUM_LEVELS],
        cnt: [0; NUM_LEVELS],
        pieces: vec![Vec::new(); NUM_LEVELS],
        tail_full: [None; NUM_LEVELS],
        tail_half: [None; NUM_LEVELS],
        window: [0; 7],
    };
    for seg in segs {
        match seg {
            Seg::Bytes(b) => {
                for &c in b.iter() {
                    s.byte(c);
                }
            }
            Seg::Zeros(z) => {
                let head = core::cmp::min(*z, 7);
                for _ in 0..head {
                    s.byte(0);
                }
                if *z > head {
                    s.quiet_zeros(*z - head);
                }
            }
        }
    }
    let StateA {
        whole,
        full,
        half,
        cnt,
        pieces,
        tail_full,
        tail_half,
        window,
    } = s;
    let rend = roll_def(&window);
    let mut top = 0usize;
    for i in 0..NUM_LEVELS {
        if cnt[i] > 0 {
            top = core::cmp::min(30, i + 1);
        }
    }
    let init = initial_index(n);
    let mut bi = core::cmp::min(init, top);
    while bi > 0 && cnt[bi] < 32 {
        bi -= 1;
    }
    let digest_full = |i: usize| -> Vec<u8> {
        let mut v = pieces[i].clone();
        if rend != 0 {
            v.push((full[i] & 63) as u8);
        } else if let Some(t) = tail_full[i] {
            v.push(t);
        }
        v
    };
    let digest_half = |i: usize| -> Vec<u8> {
        let mut v: Vec<u8> = pieces[i].iter().copied().take(31).collect();
        if rend != 0 {
            v.push((half[i] & 63) as u8);
        } else if let Some(t) = tail_half[i] {
            v.push(t);
        }
        v
    };
    let bh1 = digest_full(bi);
    let (bh2_trunc, bh2_full) = if bi < top {
        (digest_half(bi + 1), digest_full(bi + 1))
    } else if rend != 0 {
        let c = if bi == 0 { full[0] } else { whole };
        (vec![(c & 63) as u8], vec![(c & 63) as u8])
    } else {
        (vec![], vec![])
    };
    let stats = GenStats {
        cnt_sel: cnt[bi],
        cnt_next: if bi + 1 < NUM_LEVELS { cnt[bi + 1] } else { 0 },
        top: top as u8,
        rend_zero: rend == 0,
        eliminated: 0,
        lasth: false,
        initial_index: core::cmp::min(init, 30) as u8,
    };
    Ok((
        GenOut {
            log: bi as u8,
            bh1,
            bh2_trunc,
            bh2_full,
        },
        stats,
    ))
}

pub fn model_a(zero_prefix: u64, data: &[u8]) -> Result<(GenOut, GenStats), GenErr> {
    model_a_segs(&[Seg::Zeros(zero_prefix), Seg::Bytes(data)])
}

// ------------------------------------------------------------------------------------------
// Model B: port of fuzzy.c

#[derive(Clone)]
struct BhCtx {
    dindex: usize,
    digest: [u8; SPAMSUM_LENGTH], // 0xff = '\0' (unset)
    halfdigest: u8,               // 0xff = unset
    h: u32,
    halfh: u32,
}

const NIL: u8 = 0xff;

impl BhCtx {
    fn new() -> Self {
        BhCtx {
            dindex: 0,
            digest: [NIL; SPAMSUM_LENGTH],
            halfdigest: NIL,
            h: FNV_INIT,
            halfh: FNV_INIT,
        }
    }
}

#[derive(Clone)]
struct RollState {
    window: [u8; ROLLING_WINDOW],
    h1: u32,
    h2: u32,
    h3: u32,
    n: u32,
}

impl RollState {
    fn new() -> Self {
        RollState {
            window: [0; ROLLING_WINDOW],
            h1: 0,
            h2: 0,
            h3: 0,
            n: 0,
        }
    }
    fn hash(&mut self, c: u8) {
        self.h2 = self.h2.wrapping_sub(self.h1);
        self.h2 = self.h2.wrapping_add((ROLLING_WINDOW as u32).wrapping_mul(c as u32));
        self.h1 = self.h1.wrapping_add(c as u32);
        self.h1 = self
            .h1
            .wrapping_sub(self.window[(self.n % ROLLING_WINDOW as u32) as usize] as u32);
        self.window[(self.n % ROLLING_WINDOW as u32) as usize] = c;
        self.n = self.n.wrapping_add(1);
        // keep n small so that the modulo stays meaningful forever
        if self.n == ROLLING_WINDOW as u32 * 1024 {
            self.n = 0;
        }
        self.h3 <<= 5;
        self.h3 ^= c as u32;
    }
    fn sum(&self) -> u32 {
        self.h1.wrapping_add(self.h2).wrapping_add(self.h3)
    }
}

#[derive(Clone)]
pub struct ModelB {
    total_size: u64,
    fixed_size: Option<u64>,
    reduce_border: u64,
    bhstart: usize,
    bhend: usize,
    bhendlimit: usize,
    rollmask: u32,
    bh: Vec<BhCtx>,
    roll: RollState,
    lasth: Option<u32>,
}

#[derive(Debug, Clone, Copy, PartialEq, Eq)]
pub enum SetTotalErr {
    TooLarge,
    Mismatch,
}

impl ModelB {
    pub fn new() -> Self {
        ModelB {
            total_size: 0,
            fixed_size: None,
            reduce_border: MIN_BLOCKSIZE * SPAMSUM_LENGTH as u64,
            bhstart: 0,
            bhend: 1,
            bhendlimit: NUM_LEVELS - 1,
            rollmask: 0,
            bh: vec![BhCtx::new(); NUM_LEVELS],
            roll: RollState::new(),
            lasth: None,
        }
    }

    /// State after `z` zero bytes (zero bytes keep the rolling hash at 0, so nothing triggers).
    pub fn with_zero_prefix(z: u64) -> Self {
        let mut s = Self::new();
        s.total_size = z;
        let h = fnv_after_zeros(z);
        s.bh[0].h = h;
        s.bh[0].halfh = h;
        s.roll.n = (z % ROLLING_WINDOW as u64) as u32;
        s
    }

    pub fn total_size(&self) -> u64 {
        self.total_size
    }

    pub fn set_total_input_length(&mut self, total: u64) -> Result<(), SetTotalErr> {
        if total > MAX_INPUT_SIZE {
            return Err(SetTotalErr::TooLarge);
        }
        if let Some(f) = self.fixed_size {
            if f != total {
                return Err(SetTotalErr::Mismatch);
            }
        }
        self.fixed_size = Some(total);
        let mut bi = 0usize;
        while (MIN_BLOCKSIZE << bi) * (SPAMSUM_LENGTH as u64) < total {
            bi += 1;
            if bi == NUM_LEVELS - 2 {
                break;
            }
        }
        bi += 1;
        self.bhendlimit = bi;
        Ok(())
    }

    fn try_fork(&mut self) {
        let o = self.bhend - 1;
        if self.bhend <= self.bhendlimit {
            let (h, halfh) = (self.bh[o].h, self.bh[o].halfh);
            let n = &mut self.bh[o + 1];
            n.h = h;
            n.halfh = halfh;
            n.digest = [NIL; SPAMSUM_LENGTH];
            n.halfdigest = NIL;
            n.dindex = 0;
            self.bhend += 1;
        } else if self.bhend == NUM_LEVELS && self.lasth.is_none() {
            self.lasth = Some(self.bh[o].h);
        }
    }

    fn try_reduce(&mut self) {
        if self.bhend - self.bhstart < 2 {
            return;
        }
        let sz = self.fixed_size.unwrap_or(self.total_size);
        if self.reduce_border >= sz {
            return;
        }
        if self.bh[self.bhstart + 1].dindex < SPAMSUM_LENGTH / 2 {
            return;
        }
        self.bhstart += 1;
        self.reduce_border = self.reduce_border.wrapping_mul(2);
        self.rollmask = self.rollmask.wrapping_mul(2).wrapping_add(1);
    }

    #[inline]
    fn step(&mut self, c: u8) {
        self.roll.hash(c);
        let horg = self.roll.sum().wrapping_add(1);
        let mut h = horg / MIN_BLOCKSIZE as u32;
        for i in self.bhstart..self.bhend {
            self.bh[i].h = fnv_step(self.bh[i].h, c);
            self.bh[i].halfh = fnv_step(self.bh[i].halfh, c);
        }
        if let Some(l) = self.lasth {
            self.lasth = Some(fnv_step(l, c));
        }
        if horg == 0 {
            return;
        }
        if h & self.rollmask != 0 {
            return;
        }
        if horg % MIN_BLOCKSIZE as u32 != 0 {
            return;
        }
        h >>= self.bhstart;
        let mut i = self.bhstart;
        loop {
            if self.bh[i].dindex == 0 {
                self.try_fork();
            }
            let d = self.bh[i].dindex;
            self.bh[i].digest[d] = (self.bh[i].h & 63) as u8;
            self.bh[i].halfdigest = (self.bh[i].halfh & 63) as u8;
            if d < SPAMSUM_LENGTH - 1 {
                self.bh[i].dindex += 1;
                let nd = self.bh[i].dindex;
                self.bh[i].digest[nd] = NIL;
                self.bh[i].h = FNV_INIT;
                if nd < SPAMSUM_LENGTH / 2 {
                    self.bh[i].halfh = FNV_INIT;
                    self.bh[i].halfdigest = NIL;
                }
            } else {
                self.try_reduce();
            }
            if h & 1 != 0 {
                break;
            }
            h >>= 1;
            i += 1;
            if i >= self.bhend {
                break;
            }
        }
    }

    pub fn update(&mut self, data: &[u8]) {
        self.total_size = self.total_size.saturating_add(data.len() as u64);
        for &c in data {
            self.step(c);
        }
    }

    /// `n` zero bytes: the first seven are really fed; after them the window holds only zeros,
    /// the rolling sum is 0 (0 + 1 is never a boundary), so only the FNV states of the active
    /// contexts (and lasth) and the size move.
    pub fn feed_zeros(&mut self, n: u64) {
        let head = core::cmp::min(n, ROLLING_WINDOW as u64);
        self.total_size = self.total_size.saturating_add(head);
        for _ in 0..head {
            self.step(0);
        }
        let rest = n - head;
        if rest == 0 {
            return;
        }
        assert_eq!(self.roll.sum(), 0);
        self.total_size = self.total_size.saturating_add(rest);
        let m = pow_u32(FNV_PRIME, rest);
        for i in self.bhstart..self.bhend {
            self.bh[i].h = self.bh[i].h.wrapping_mul(m);
            self.bh[i].halfh = self.bh[i].halfh.wrapping_mul(m);
        }
        if let Some(l) = self.lasth {
            self.lasth = Some(l.wrapping_mul(m));
        }
        self.roll.n = ((self.roll.n as u64 + rest % ROLLING_WINDOW as u64) % ROLLING_WINDOW as u64) as u32;
    }

    pub fn feed(&mut self, seg: &Seg) {
        match seg {
            Seg::Bytes(b) => self.update(b),
            Seg::Zeros(z) => self.feed_zeros(*z),
        }
    }

    pub fn stats(&self) -> (u8, bool) {
        (self.bhstart as u8, self.lasth.is_some())
    }

    pub fn digest(&self) -> Result<(GenOut, GenStats), GenErr> {
        let mut bi = self.bhstart;
        let h = self.roll.sum();
        if self.total_size > MAX_INPUT_SIZE {
            return Err(GenErr::InputSizeTooLarge);
        }
        if let Some(f) = self.fixed_size {
            if f != self.total_size {
                return Err(GenErr::FixedSizeMismatch);
            }
        }
        while (MIN_BLOCKSIZE << bi) * (SPAMSUM_LENGTH as u64) < self.total_size {
            bi += 1;
        }
        let init = bi;
        if bi >= self.bhend {
            bi = self.bhend - 1;
        }
        while bi > self.bhstart && self.bh[bi].dindex < SPAMSUM_LENGTH / 2 {
            bi -= 1;
        }
        // block hash 1
        let b = &self.bh[bi];
        let mut bh1: Vec<u8> = b.digest[..b.dindex].to_vec();
        if h != 0 {
            bh1.push((b.h & 63) as u8);
        } else if b.digest[b.dindex] != NIL {
            bh1.push(b.digest[b.dindex]);
        }
        // block hash 2
        let mut out2 = [Vec::new(), Vec::new()];
        if bi < self.bhend - 1 {
            let b = &self.bh[bi + 1];
            for (k, notrunc) in [(0usize, false), (1usize, true)] {
                let mut i = b.dindex;
                if !notrunc && i > SPAMSUM_LENGTH / 2 - 1 {
                    i = SPAMSUM_LENGTH / 2 - 1;
                }
                let mut v: Vec<u8> = b.digest[..i].to_vec();
                if h != 0 {
                    let hh = if notrunc { b.h } else { b.halfh };
                    v.push((hh & 63) as u8);
                } else {
                    let c = if notrunc { b.digest[b.dindex] } else { b.halfdigest };
                    if c != NIL {
                        v.push(c);
                    }
                }
                out2[k] = v;
            }
        } else if h != 0 {
            assert!(bi == 0 || bi == NUM_LEVELS - 1, "model B: unexpected bi={}", bi);
            let c = if bi == 0 {
                self.bh[bi].h
            } else {
                self.lasth.expect("model B: lasth must be active")
            };
            out2[0] = vec![(c & 63) as u8];
            out2[1] = out2[0].clone();
        }
        let [bh2_trunc, bh2_full] = out2;
        let cnt = |i: usize| -> u64 {
            if i < NUM_LEVELS && i < self.bhend {
                self.bh[i].dindex as u64
                    + if self.bh[i].dindex == 63 && self.bh[i].digest[63] != NIL { 1 } else { 0 }
            } else {
                0
            }
        };
        let stats = GenStats {
            cnt_sel: cnt(bi),
            cnt_next: cnt(bi + 1),
            top: (self.bhend - 1) as u8,
            rend_zero: h == 0,
            eliminated: self.bhstart as u8,
            lasth: self.lasth.is_some(),
            initial_index: core::cmp::min(init, 30) as u8,
        };
        Ok((
            GenOut {
                log: bi as u8,
                bh1,
                bh2_trunc,
                bh2_full,
            },
            stats,
        ))
    }
}

impl Default for ModelB {
    fn default() -> Self {
        Self::new()
    }
}

pub fn model_b(zero_prefix: u64, data: &[u8], fixed: Option<u64>) -> Result<(GenOut, GenStats), GenErr> {
    let mut m = ModelB::with_zero_prefix(zero_prefix);
    if let Some(f) = fixed {
        // an unacceptable declaration is ignored by the model (the caller decides what it means)
        let _ = m.set_total_input_length(f);
    }
    m.update(data);
    m.digest()
}

pub fn model_b_segs(segs: &[Seg], fixed: Option<u64>) -> Result<(GenOut, GenStats), GenErr> {
    let mut m = ModelB::new();
    if let Some(f) = fixed {
        let _ = m.set_total_input_length(f);
    }
    for s in segs {
        m.feed(s);
    }
    m.digest()
}

/// Render as ssdeep text.
pub fn to_text(log: u8, bh1: &[u8], bh2: &[u8]) -> String {
    crate::fmt::format_hash(log, bh1, bh2)
}

/// Positions (index of the byte that caused it) where model B eliminated a level, and
/// positions of piece boundaries at level >= `min_level`.
pub fn interesting_positions(data: &[u8], min_level: u8) -> (Vec<usize>, Vec<usize>) {
    interesting_positions_after_zeros(0, data, min_level)
}

/// the same after a run of `z` zero bytes
pub fn interesting_positions_after_zeros(z: u64, data: &[u8], min_level: u8) -> (Vec<usize>, Vec<usize>) {
    let mut m = ModelB::new();
    m.feed_zeros(z);
    let mut elim = Vec::new();
    let mut bounds = Vec::new();
    let mut last = 0usize;
    for (p, &c) in data.iter().enumerate() {
        m.total_size += 1;
        m.step(c);
        if m.bhstart != last {
            last = m.bhstart;
            elim.push(p);
        }
        let r1 = m.roll.sum().wrapping_add(1);
        if r1 != 0 && r1 % 3 == 0 && (r1 / 3).trailing_zeros() >= min_level as u32 {
            bounds.push(p);
        } else if r1 == 1 && c != 0 {
            // rolling value 0 although the window is not all zeros
            bounds.push(p);
        }
    }
    (elim, bounds)
}
