//! Corpus line format shared by the driver (harness, C14) and the per-configuration probe.

use serde::{Deserialize, Serialize};

#[derive(Debug, Clone, Serialize, Deserialize, PartialEq)]
pub struct H {
    pub log: u8,
    pub bh1: Vec<u8>,
    pub bh2: Vec<u8>,
}

#[derive(Debug, Clone, Serialize, Deserialize, PartialEq)]
pub enum Seg {
    Bytes(Vec<u8>),
    Zeros(u64),
}

#[derive(Debug, Clone, Serialize, Deserialize, PartialEq)]
pub enum Line {
    /// generator: segments fed with the given chunking (form, size) cycled over the literal bytes;
    /// `declare`: 0 none, 1 before, 2 after (with the true total)
    Gen { segs: Vec<Seg>, chunks: Vec<(u8, u32)>, declare: u8 },
    /// all six parsers
    Parse { text: Vec<u8> },
    /// object-level operations on a raw hash (conversions, normalisation, dual, text, buffers)
    Obj { h: H, other: H, buf_len: u16 },
    /// comparison of two raw hashes through every core entry point
    Cmp { a: H, b: H },
}
