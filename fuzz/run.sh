#!/bin/bash
# usage: fuzz/run.sh <property> <target> <runs-per-job> <jobs> <seed>
# coverage-guided campaign with the oracle inside the target; prints a JSON summary on the last line
# env FZ_FEATURES / FZ_TAG: build the targets with these features of the fuzz crate into target-$FZ_TAG (own corpus and artifact directories)
# exit 0 no crash, 1 crash (artifact path printed as VIOLATION line), 2 harness fault
set -u
PROP="$1"; T="$2"; RUNS="$3"; JOBS="$4"; SEED="$5"
cd "$(dirname "$0")"
export RUSTFLAGS="--cfg a4lg_ffuzzy_verif" CARGO_NET_OFFLINE=true
[ -f Cargo.lock ] || cp ../Cargo.lock Cargo.lock
TAG="${FZ_TAG:-}"; SFX="${TAG:+-$TAG}"
FEAT=(); [ -n "${FZ_FEATURES:-}" ] && FEAT=(-O --features "$FZ_FEATURES" --target-dir "target$SFX")   # -O: no debug assertions, otherwise the unsafe paths are compiled out
if ! cargo +nightly fuzz build "${FEAT[@]}" "$T" > "../target/fuzz-build$SFX.$T.log" 2>&1; then
  echo "BUILD FAILED (fuzz target $T) - harness fault" >&2; tail -20 "../target/fuzz-build$SFX.$T.log" >&2; exit 2
fi
BIN="target$SFX/x86_64-unknown-linux-gnu/release/$T"
WORK="corpus-run$SFX/$T"; ART="artifacts$SFX/$T"
rm -rf "$WORK"; mkdir -p "$WORK" "$ART"
cp ../corpus/$T/* "$WORK"/ 2>/dev/null
[ "$SEED" = "0" ] && SEED=1   # libFuzzer: 0 means random
pids=(); rc=0
for j in $(seq 1 "$JOBS"); do
  mkdir -p "$WORK/j$j"; cp ../corpus/$T/* "$WORK/j$j"/ 2>/dev/null
  "$BIN" "$WORK/j$j" -runs="$RUNS" -seed=$((SEED * 1000 + j)) -max_len=${MAXLEN:-600} -len_control=0 -artifact_prefix="$ART/" -print_final_stats=1 > "$WORK/log.$j" 2>&1 &
  pids+=($!)
done
for p in "${pids[@]}"; do wait $p || rc=1; done
execs=$(grep -h "stat::number_of_executed_units" "$WORK"/log.* | awk '{s+=$2} END {print s+0}')
cov=$(grep -h " cov: " "$WORK"/log.* | sed 's/.* cov: \([0-9]*\).*/\1/' | sort -n | tail -1)
corp=$(ls "$WORK"/j*/ 2>/dev/null | wc -l)
if [ $rc -ne 0 ]; then
  crash=$(grep -h "Test unit written to" "$WORK"/log.* | head -1 | sed 's/.*written to //')
  msg=$(grep -h "FZ-VIOLATION\|panicked at\|ERROR: AddressSanitizer" "$WORK"/log.* | head -3 | tr '\n' ' ' | cut -c1-400)
  if [ -z "$crash" ]; then echo "fuzz job failed without an artifact (harness fault): $(tail -3 "$WORK"/log.1)" >&2; exit 2; fi
  echo "fuzz target $T: $msg"
  echo "VIOLATION property=$PROP replay=$(realpath "$crash")"
  echo "{\"target\":\"$T\",\"executions\":$execs,\"max_cov\":${cov:-0},\"corpus_files\":$corp,\"crash\":\"$crash\"}"
  exit 1
fi
echo "{\"target\":\"$T\",\"executions\":$execs,\"max_cov\":${cov:-0},\"corpus_files\":$corp,\"jobs\":$JOBS,\"runs_per_job\":$RUNS,\"crash\":null}"
exit 0
