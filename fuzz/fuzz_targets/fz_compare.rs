//! C02 - two hashes decoded from the bytes (symbols = byte & 63), reference fuzzy_compare inside.
#![no_main]
use libfuzzer_sys::fuzz_target;
use oracle::cmp::{compare_split, SplitHash};
use ssdeep::{FuzzyHashCompareTarget, LongRawFuzzyHash};

fn take<'a>(d: &mut &'a [u8], n: usize) -> &'a [u8] {
    let n = n.min(d.len());
    let (a, b) = d.split_at(n);
    *d = b;
    a
}

fuzz_target!(|data: &[u8]| {
    if data.len() < 6 {
        return;
    }
    let mut d = data;
    let hdr = take(&mut d, 6);
    let la = hdr[0] % 31;
    let lb = match hdr[1] % 8 {
        0..=3 => la,
        4 | 5 => (la + 1).min(30),
        6 => la.saturating_sub(1),
        _ => hdr[1] % 31,
    };
    let sym = |s: &[u8]| -> Vec<u8> { s.iter().map(|b| b & 63).collect() };
    let a1 = sym(take(&mut d, hdr[2] as usize % 65));
    let a2 = sym(take(&mut d, hdr[3] as usize % 65));
    let b1 = sym(take(&mut d, hdr[4] as usize % 65));
    let b2 = sym(take(&mut d, hdr[5] as usize % 65));
    let exp = compare_split(
        &SplitHash { block_size: 3u64 << la, bh1: a1.clone(), bh2: a2.clone() },
        &SplitHash { block_size: 3u64 << lb, bh1: b1.clone(), bh2: b2.clone() },
    );
    let ra = LongRawFuzzyHash::new_from_internals_near_raw(la, &a1, &a2);
    let rb = LongRawFuzzyHash::new_from_internals_near_raw(lb, &b1, &b2);
    let (na, nb) = (ra.normalize(), rb.normalize());
    assert!(na.compare(&nb) == exp && nb.compare(&na) == exp, "FZ-VIOLATION C02 hash.compare");
    let t = FuzzyHashCompareTarget::from(&na);
    assert!(t.compare(&nb) == exp, "FZ-VIOLATION C02 target.compare");
    assert!(ssdeep::compare(&ra.to_string(), &rb.to_string()) == Ok(exp), "FZ-VIOLATION C02 compare(&str,&str)");
    assert!((exp > 0) == (na == nb || t.is_comparison_candidate(&nb)), "FZ-VIOLATION C10 score>0 <=> equal or candidate");
});
