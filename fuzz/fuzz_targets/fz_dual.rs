//! C07 - raw hash decoded from the bytes as run layouts; dual round trip and route equality inside.
#![no_main]
use libfuzzer_sys::fuzz_target;
use oracle::fmt::{collapse, format_hash};
use ssdeep::{LongDualFuzzyHash, LongRawFuzzyHash};

fuzz_target!(|data: &[u8]| {
    if data.len() < 2 {
        return;
    }
    let log = data[0] % 31;
    let split = 1 + (data[1] as usize % data.len().max(1));
    let layout = |d: &[u8]| -> Vec<u8> {
        let mut v = Vec::new();
        for b in d {
            let s = b & 15;
            let n = 1 + (b >> 4) as usize % 9;
            for _ in 0..n {
                if v.len() < 64 {
                    v.push(s);
                }
            }
        }
        v
    };
    let bh1 = layout(&data[2.min(data.len())..split.max(2).min(data.len())]);
    let bh2 = layout(&data[split.max(2).min(data.len())..]);
    let raw = LongRawFuzzyHash::new_from_internals_near_raw(log, &bh1, &bh2);
    let text = format_hash(log, &bh1, &bh2);
    let d1 = LongDualFuzzyHash::from_raw_form(&raw);
    let d2: LongDualFuzzyHash = text.parse().expect("FZ-VIOLATION C07 dual parser rejects a valid text");
    let d3 = LongDualFuzzyHash::new_from_internals_near_raw(log, &bh1, &bh2);
    assert!(d1.is_valid() && d2.is_valid() && d3.is_valid(), "FZ-VIOLATION C07 validity");
    assert!(d1 == d2 && d1 == d3 && d1.cmp(&d2) == std::cmp::Ordering::Equal, "FZ-VIOLATION C07 routes differ");
    assert!(d1.to_raw_form().full_eq(&raw) && d2.to_raw_form_string() == text, "FZ-VIOLATION C07 round trip");
    assert!(d1.as_normalized().block_hash_1() == &collapse(&bh1)[..] && d1.as_normalized().block_hash_2() == &collapse(&bh2)[..], "FZ-VIOLATION C07 normalised part");
});
