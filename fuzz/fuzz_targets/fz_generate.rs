//! C01/C03 - bytes are hashed as they are, with a chunking derived from the first bytes;
//! reference model B inside the target.
#![no_main]
use libfuzzer_sys::fuzz_target;
use oracle::fmt::format_hash;
use oracle::gen::model_b;
use ssdeep::{Generator, GeneratorError};

fuzz_target!(|data: &[u8]| {
    if data.len() < 2 {
        return;
    }
    let (ctl, body) = data.split_at(2);
    // optional amplification: repeat the body so that higher block sizes are reached
    let rep = 1 + (ctl[1] as usize % 8) * (ctl[1] as usize % 8);
    let mut input: Vec<u8> = Vec::with_capacity(body.len() * rep);
    for _ in 0..rep {
        input.extend_from_slice(body);
    }
    let (r, _) = model_b(0, &input, None).expect("model B");
    let mut g = Generator::new();
    let step = 1 + (ctl[0] as usize) * 3;
    for (i, c) in input.chunks(step).enumerate() {
        match (i + ctl[0] as usize) % 3 {
            0 => {
                g.update(c);
            }
            1 => {
                g.update_by_iter(c.iter().copied());
            }
            _ => {
                for &b in c {
                    g.update_by_byte(b);
                }
            }
        }
    }
    let short = format_hash(r.log, &r.bh1, &r.bh2_trunc);
    let long = format_hash(r.log, &r.bh1, &r.bh2_full);
    assert!(g.finalize().map(|h| h.to_string()) == Ok(short.clone()), "FZ-VIOLATION C01 finalize");
    assert!(g.finalize_without_truncation().map(|h| h.to_string()) == Ok(long.clone()), "FZ-VIOLATION C01 finalize_without_truncation");
    let nt = g.finalize_raw::<false, 64, 32>().map(|h| h.to_string());
    if r.bh2_full.len() <= 32 {
        assert!(nt == Ok(long), "FZ-VIOLATION C01 finalize_raw<false,64,32>");
    } else {
        assert!(nt == Err(GeneratorError::OutputOverflow), "FZ-VIOLATION C01 overflow");
    }
    assert!(ssdeep::hash_buf(&input).map(|h| h.to_string()) == Ok(short), "FZ-VIOLATION C01 hash_buf");
});
