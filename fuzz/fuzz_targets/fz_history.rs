//! C12/C03 - a call history decoded from the fuzzer's bytes (declare size / update forms / clone /
//! clone_from / finalize / reset) against a model: the bytes fed since the last reset, the declared
//! size, and reference model B for the hash.
#![no_main]
use libfuzzer_sys::fuzz_target;
use oracle::fmt::format_hash;
use oracle::gen::{model_b, MAX_INPUT_SIZE};
use ssdeep::{Generator, GeneratorError};

#[derive(Clone)]
struct Shadow {
    fed: Vec<u8>,
    fixed: Option<u64>,
}

fn check_final(g: &Generator, s: &Shadow, what: &str) {
    let got = g.finalize().map(|h| h.to_string());
    let got_long = g.finalize_without_truncation().map(|h| h.to_string());
    match s.fixed {
        Some(n) if n != s.fed.len() as u64 => {
            assert!(got == Err(GeneratorError::FixedSizeMismatch), "FZ-VIOLATION C12 {}: finalize with a declared size that differs", what);
            assert!(got_long == Err(GeneratorError::FixedSizeMismatch), "FZ-VIOLATION C12 {}: finalize_without_truncation with a declared size that differs", what);
        }
        _ => {
            let (r, _) = model_b(0, &s.fed, None).expect("model B");
            assert!(got == Ok(format_hash(r.log, &r.bh1, &r.bh2_trunc)), "FZ-VIOLATION C12 {}: finalize", what);
            assert!(got_long == Ok(format_hash(r.log, &r.bh1, &r.bh2_full)), "FZ-VIOLATION C12 {}: finalize_without_truncation", what);
        }
    }
    assert!(g.input_size() == s.fed.len() as u64, "FZ-VIOLATION C03 {}: input_size", what);
}

fuzz_target!(|data: &[u8]| {
    if data.len() < 4 {
        return;
    }
    // the first quarter (at most 64 bytes) is the program, the rest the payload pool
    let plen = (data.len() / 4).clamp(1, 64);
    let (prog, pool) = data.split_at(plen);
    if pool.is_empty() {
        return;
    }
    let mut g = Generator::new();
    let mut s = Shadow { fed: Vec::new(), fixed: None };
    let mut spare: Option<(Generator, Shadow)> = None;
    let mut cursor = 0usize;
    let mut take = |n: usize| -> Vec<u8> {
        // payload: a window of the pool (wrapping), so that repeated material reaches higher block sizes
        let mut v = Vec::with_capacity(n);
        for _ in 0..n {
            v.push(pool[cursor % pool.len()]);
            cursor += 1;
        }
        v
    };
    let mut finals = 0;
    for (i, &op) in prog.iter().enumerate() {
        let arg = (op >> 4) as usize;
        match op & 15 {
            0 | 1 => {
                let c = take(1 + arg * arg * 5);
                g.update(&c);
                s.fed.extend_from_slice(&c);
            }
            2 => {
                let c = take(1 + arg * 3);
                g.update_by_iter(c.iter().copied());
                s.fed.extend_from_slice(&c);
            }
            3 => {
                let c = take(1 + arg);
                for &b in &c {
                    g.update_by_byte(b);
                }
                s.fed.extend_from_slice(&c);
            }
            4 => {
                let c = take(arg * 41);
                g += &c[..];
                s.fed.extend_from_slice(&c);
            }
            5 => {
                // declare: the size fed so far plus what some later ops may add, or an unrelated value
                let n: u64 = match arg % 4 {
                    0 => s.fed.len() as u64,
                    1 => s.fed.len() as u64 + 1 + (arg as u64) * 7,
                    2 => (arg as u64 / 4) * 48,
                    _ => MAX_INPUT_SIZE + (arg as u64 / 4 % 3),
                };
                // both spellings of the call
                let r = if i % 2 == 0 { g.set_fixed_input_size(n) } else { g.set_fixed_input_size_in_usize(n as usize) };
                let exp = if n > MAX_INPUT_SIZE {
                    Err(GeneratorError::FixedSizeTooLarge)
                } else if s.fixed.is_some() && s.fixed != Some(n) {
                    Err(GeneratorError::FixedSizeMismatch)
                } else {
                    s.fixed = Some(n);
                    Ok(())
                };
                assert!(r == exp, "FZ-VIOLATION C12 set_fixed_input_size({}) at op {}", n, i);
            }
            6 => {
                // declare exactly what the history will have fed if nothing else follows but one more chunk
                let extra = 1 + arg * 11;
                let n = (s.fed.len() + extra) as u64;
                let r = g.set_fixed_input_size(n);
                if s.fixed.is_none() || s.fixed == Some(n) {
                    assert!(r == Ok(()), "FZ-VIOLATION C12 set_fixed_input_size (first or equal)");
                    s.fixed = Some(n);
                    let c = take(extra);
                    g.update(&c);
                    s.fed.extend_from_slice(&c);
                } else {
                    assert!(r == Err(GeneratorError::FixedSizeMismatch), "FZ-VIOLATION C12 second, different declaration");
                }
            }
            7 => {
                g.reset();
                s = Shadow { fed: Vec::new(), fixed: None };
            }
            8 => {
                if finals < 6 {
                    finals += 1;
                    check_final(&g, &s, "mid-history");
                }
            }
            9 => {
                let c = g.clone();
                spare = Some((std::mem::replace(&mut g, c), s.clone()));
            }
            10 => {
                // clone_from into whatever the spare generator is by now (a used one, or a fresh one)
                let (mut dst, _) = spare.take().unwrap_or_else(|| (Generator::new(), Shadow { fed: Vec::new(), fixed: None }));
                dst.clone_from(&g);
                spare = Some((std::mem::replace(&mut g, dst), s.clone()));
            }
            11 => {
                // swap with the spare one: histories interleave
                if let Some((sg, ss)) = spare.take() {
                    spare = Some((std::mem::replace(&mut g, sg), std::mem::replace(&mut s, ss)));
                }
            }
            12 => {
                // declare well ahead of what has been fed
                let n = (s.fed.len() + 1 + arg * arg * 40) as u64;
                let r = g.set_fixed_input_size(n);
                if s.fixed.is_none() || s.fixed == Some(n) {
                    assert!(r == Ok(()), "FZ-VIOLATION C12 set_fixed_input_size ahead of the data");
                    s.fixed = Some(n);
                } else {
                    assert!(r == Err(GeneratorError::FixedSizeMismatch), "FZ-VIOLATION C12 second, different declaration (ahead)");
                }
            }
            13 => {
                // feed exactly up to the declared size
                if let Some(n) = s.fixed {
                    if n > s.fed.len() as u64 && n <= 1 << 16 {
                        let c = take(n as usize - s.fed.len());
                        g.update(&c);
                        s.fed.extend_from_slice(&c);
                    }
                }
            }
            _ => {
                let c = take(7);
                g.update(&c);
                s.fed.extend_from_slice(&c);
            }
        }
        if s.fed.len() > 1 << 16 {
            break;
        }
    }
    check_final(&g, &s, "end of the history");
    if let Some((sg, ss)) = &spare {
        check_final(sg, ss, "spare generator");
    }
});
