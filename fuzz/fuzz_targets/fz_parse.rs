//! C04 - raw bytes straight into the six parsers, reference recogniser inside the target.
#![no_main]
use libfuzzer_sys::fuzz_target;
use oracle::fmt::collapse;
use oracle::parse::{parse_ref, Counting, Origin};
use ssdeep::{DualFuzzyHash, FuzzyHash, LongDualFuzzyHash, LongFuzzyHash, LongRawFuzzyHash, ParseErrorInfo, ParseErrorOrigin, RawFuzzyHash};

fn origin(o: ParseErrorOrigin) -> Origin {
    match o {
        ParseErrorOrigin::BlockSize => Origin::BlockSize,
        ParseErrorOrigin::BlockHash1 => Origin::BlockHash1,
        ParseErrorOrigin::BlockHash2 => Origin::BlockHash2,
    }
}

macro_rules! plain {
    ($ty:ty, $cap2:expr, $norm:expr, $data:expr) => {{
        let counting = if $norm { Counting::Collapsed } else { Counting::Raw };
        let exp = parse_ref($data, 64, $cap2, counting).0;
        let mut idx = usize::MAX;
        match (<$ty>::from_bytes_with_last_index($data, &mut idx), exp) {
            (Ok(h), Ok(p)) => {
                let (e1, e2) = if $norm { (collapse(&p.bh1), collapse(&p.bh2)) } else { (p.bh1.clone(), p.bh2.clone()) };
                assert!(h.is_valid(), "FZ-VIOLATION C04 {}: accepted object invalid", stringify!($ty));
                assert!(h.log_block_size() == p.log && h.block_hash_1() == &e1[..] && h.block_hash_2() == &e2[..] && idx == p.end, "FZ-VIOLATION C04 {}: content/index", stringify!($ty));
            }
            (Err(e), Err(o)) => {
                assert!(origin(e.origin()) == o && idx == usize::MAX, "FZ-VIOLATION C04 {}: origin/index", stringify!($ty));
            }
            (Ok(_), Err(o)) => panic!("FZ-VIOLATION C04 {}: accepted, reference rejects at {:?}", stringify!($ty), o),
            (Err(e), Ok(_)) => panic!("FZ-VIOLATION C04 {}: rejected {:?}, reference accepts", stringify!($ty), e),
        }
    }};
}
macro_rules! dual {
    ($ty:ty, $cap2:expr, $data:expr) => {{
        let exp = parse_ref($data, 64, $cap2, Counting::Raw).0;
        let mut idx = usize::MAX;
        match (<$ty>::from_bytes_with_last_index($data, &mut idx), exp) {
            (Ok(h), Ok(p)) => {
                assert!(h.is_valid(), "FZ-VIOLATION C04 {}: accepted object invalid", stringify!($ty));
                let raw = h.to_raw_form();
                let n = h.as_normalized();
                assert!(raw.block_hash_1() == &p.bh1[..] && raw.block_hash_2() == &p.bh2[..] && n.block_hash_1() == &collapse(&p.bh1)[..] && n.block_hash_2() == &collapse(&p.bh2)[..] && idx == p.end && h.log_block_size() == p.log, "FZ-VIOLATION C04 {}: content/index", stringify!($ty));
            }
            (Err(e), Err(o)) => {
                assert!(origin(e.origin()) == o && idx == usize::MAX, "FZ-VIOLATION C04 {}: origin/index", stringify!($ty));
            }
            (Ok(_), Err(o)) => panic!("FZ-VIOLATION C04 {}: accepted, reference rejects at {:?}", stringify!($ty), o),
            (Err(e), Ok(_)) => panic!("FZ-VIOLATION C04 {}: rejected {:?}, reference accepts", stringify!($ty), e),
        }
    }};
}

fuzz_target!(|data: &[u8]| {
    plain!(RawFuzzyHash, 32, false, data);
    plain!(LongRawFuzzyHash, 64, false, data);
    plain!(FuzzyHash, 32, true, data);
    plain!(LongFuzzyHash, 64, true, data);
    dual!(DualFuzzyHash, 32, data);
    dual!(LongDualFuzzyHash, 64, data);
});
