#!/bin/bash
# builds the 14 probe binaries (7 feature sets x {release, relda}), each in its own target dir, in parallel
set -u
cd "$(dirname "$0")/.."
export RUSTFLAGS="--cfg a4lg_ffuzzy_verif" CARGO_NET_OFFLINE=true
CONFIGS="${*:-f-default f-unsafe f-unchecked f-reduce-fnv f-unsafe-reduce-fnv f-strict f-nodefault}"
pids=()
for c in $CONFIGS; do
  for prof in release relda; do
    (
      cargo build --profile $prof -p cfgprobe --no-default-features --features $c --target-dir "target-cfg/$c" > "target/cfgprobe.$c.$prof.log" 2>&1 || { echo "cfgprobe build failed: $c $prof (see target/cfgprobe.$c.$prof.log)" >&2; grep -E "^error" -A8 "target/cfgprobe.$c.$prof.log" | head -20 >&2; exit 1; }
    ) &
    pids+=($!)
  done
done
rc=0
for p in "${pids[@]}"; do wait $p || rc=2; done
exit $rc
