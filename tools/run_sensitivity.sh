#!/bin/bash
# usage: tools/run_sensitivity.sh [parallelism]  - runs every /verif/sensitivity/*.diff against the checks listed in its .props
set -u
cd "$(dirname "$0")/.."
PAR="${1:-4}"
run_one() {
  n="$1"; props=$(cat sensitivity/$n.props)
  out=$(tools/try_mutant_iso.sh "own-$n" "sensitivity/$n.diff" $props 2>&1)
  echo "$out" > sensitivity/$n.log
  caught=$(echo "$out" | grep -E "^== C[0-9]+ exit=1" | sed 's/== \(C[0-9]*\).*/\1/' | tr '\n' ' ')
  silent=$(echo "$out" | grep -E "^== C[0-9]+ exit=0" | sed 's/== \(C[0-9]*\).*/\1/' | tr '\n' ' ')
  other=$(echo "$out" | grep -E "^== C[0-9]+ exit=[2-9]|BUILD FAILED" | tr '\n' ' ')
  echo "$n | caught: $caught| silent: $silent| other: $other"
}
export -f run_one
ls sensitivity/*.diff | sed 's#sensitivity/##; s#\.diff##' | xargs -P "$PAR" -I{} bash -c 'run_one {}' | sort > sensitivity/RESULTS.txt
cat sensitivity/RESULTS.txt
