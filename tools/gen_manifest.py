#!/usr/bin/env python3
"""Regenerates /verif/MANIFEST.json from the table below (run from /verif)."""
import json, subprocess, sys

BUILT = sys.argv[1:]  # ids that have a check

TECH = {
 "C01": ("differential PBT against two independent reference models of ssdeep 2.14.1 (calibrated on libfuzzy golden vectors); libFuzzer target with the oracle inside in the thorough tier", "6/C01"),
 "C02": ("differential PBT against a port of fuzzy_compare/score_strings over derived hash pairs, every entry point in both orders", "6/C02"),
 "C03": ("metamorphic stateful PBT: generated call histories (vec(op)+interpreter) vs one-shot feeding; prefix finalisations vs one-shot of the prefix", "6/C03"),
 "C04": ("differential PBT against a reference recogniser/decoder of the grammar, six parsers x five entry points, both assertion profiles; strict build through cfgprobe", "6/C04"),
 "C05": ("round-trip + reference formatter PBT with sentinel buffers of every length", "6/C05"),
 "C06": ("PBT + exhaustive small-alphabet enumeration: reference run-collapser, agreement of all normalisation routes, idempotence", "6/C06"),
 "C07": ("systematic enumeration of every (position, run length) + PBT: round trip, reference normaliser, pairwise route equality under Eq/Hash/Ord", "6/C07"),
 "C08": ("exhaustive small-scope enumeration + structured PBT against textbook DP (LCS)", "6/C08"),
 "C09": ("systematic planting of a shared 7-gram at every offset pair + PBT against naive search", "6/C09"),
 "C10": ("algebraic-law PBT (range, symmetry, reflexivity, far=0, score>0 <=> equal or candidate) with window sets recomputed from first principles", "6/C10"),
 "C11": ("stateful PBT over an object pool with out-of-contract constructor arguments and arbitrary-bytes objects; validity predicate re-implemented; both assertion profiles", "6/C11"),
 "C12": ("model-based stateful PBT: executable model of the declare/update/finalize/reset contract + lock-step differential against a fresh generator; stateful libFuzzer target (fz_history: call history decoded from bytes, model inside) in the thorough tier", "6/C12"),
 "C13": ("PBT on top of the cfg(a4lg_ffuzzy_verif) zero-prefix hook against reference models with a closed-form prefix; hook validated against real feeding", "6/C13"),
 "C14": ("differential PBT across 7 feature sets x 2 assertion profiles: byte-compared transcripts of a seeded corpus; checked-vs-unchecked twins; strict-parser relation; thorough tier: Miri on the unsafe probes and libFuzzer+ASan campaigns (oracles inside) against the unsafe/unchecked build", "6/C14"),
 "C15": ("stateful PBT over the conversion graph with an abstract value model, fresh and dirty destinations", "6/C15"),
 "C16": ("PBT over families of close hashes against a reference order / text equality / fixed hashers; sort differential", "6/C16"),
 "C17": ("stateful PBT: re-initialisation histories vs a fresh target; bit-level reference of the position array", "6/C17"),
 "C18": ("fault-injection PBT + systematic sweep of the fault position over generated readers; files with lying metadata (FIFOs, procfs)", "6/C18"),
 "C19": ("exhaustive enumeration of all FNV (state, byte) steps + PBT of all prefixes against closed formulas", "6/C19"),
 "C20": ("exhaustive enumeration of the complete finite domains (2^32 block sizes, 31x31 relations, all score arguments)", "6/C20"),
}
LEVEL_TEXT = {
 "C18": "fault_enumeration",
}
NOTE = "Trusted: the reference models in /verif/crates/oracle (re-calibrated against libfuzzy golden vectors / documented scores at every run), rustc/LLVM, proptest. 'Held on everything explored' only; exhaustive sub-checks are flagged in the evidence."

def text_for(pid):
    if pid == "C20":
        return "Complete enumeration of every finite domain the property names: within those domains this is a decision, not a sample."
    if pid in ("C08", "C06", "C19"):
        return "Generated-input search against an independent oracle plus complete enumeration of a small scope (flagged exhaustive per sub-check in the evidence); outside the enumerated scope: held on everything explored."
    if pid == "C18":
        return "Every read index of systematic schedules gets a fault (enumeration of the fault position) plus generated readers/fault kinds; the oracle is 'error out, never a hash' and 'hash of the delivered bytes'."
    return "Generated-input search (proptest, fixed work, seeded) against an explicit independent oracle; shrunk failures become replay files. Held on everything explored, no absence claim."

checks = []
for pid in sorted(TECH):
    if pid not in BUILT:
        continue
    tech, ref = TECH[pid]
    checks.append({
        "property_id": pid,
        "quick_cmd": f"./check {pid} --tier quick",
        "thorough_cmd": f"./check {pid} --tier thorough",
        "evidence_file": f"/verif/evidence/{pid}.json",
        "replay_cmd_template": f"./check {pid} --replay {{path}}",
        "engine": "ffv",
        "level_claimed": {"category": LEVEL_TEXT.get(pid, "exploration"), "text": text_for(pid), "design_ref": f"DESIGN.md section {ref}"},
        "level_note": NOTE,
        "technique": tech,
    })

hook_commits = subprocess.run(["git", "-C", "/repo", "log", "--format=%H", "--grep=^verif hook"], capture_output=True, text=True).stdout.split()
manifest = {
    "version": 1,
    "setup_cmd": "./check --setup",
    "hooks": {
        "guard": "a4lg_ffuzzy_verif",
        "enable": "RUSTFLAGS=\"--cfg a4lg_ffuzzy_verif\" (exported by ./check; also /verif/.cargo/config.toml [build] rustflags)",
        "baseline_off_cmd": "cd /repo && cargo test --workspace --no-fail-fast --offline",
        "source_commits": hook_commits,
        "add_only": True,
    },
    "engines": [
        {"name": "ffv", "path": "/verif/crates/harness", "serves_properties": [c["property_id"] for c in checks], "kind_free_text": "proptest-driven harness binary (release and release+debug-assertions profiles) with reference models from /verif/crates/oracle"},
    ],
    "checks": checks,
    "notes": "Technique family: property-based testing and fuzzing. ./check rebuilds the harness (path dependency on /repo/ffuzzy, so the library is rebuilt from /repo's working tree) before every run. Exit 2 = harness fault (build, oracle calibration, harness panic), never dressed up as a violation. Known findings: /verif/known_findings.json.",
    "not_applicable": [
        {"property_id": pid, "reason": "check not built yet in this session (design in DESIGN.md section 6); will be claimed once the check exists and is silent on the unchanged tree"}
        for pid in sorted(TECH) if pid not in BUILT
    ],
}
json.dump(manifest, open("MANIFEST.json", "w"), indent=1)
print("MANIFEST.json:", len(checks), "checks,", len(manifest["not_applicable"]), "not applicable")
