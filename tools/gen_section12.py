#!/usr/bin/env python3
"""Rewrites the table of section 12 of DESIGN.md from /verif/seeded/*/meta.json."""
import json, glob, os, re
rows = []
for d in sorted(glob.glob('seeded/*/')):
    try:
        m = json.load(open(d + 'meta.json'))
    except Exception:
        continue
    name = os.path.basename(d.rstrip('/'))
    what = (m.get('breaks') or '').replace('\n', ' ').replace('|', '/')
    needs = (m.get('needs_to_manifest') or '').replace('\n', ' ').replace('|', '/')
    if len(what) > 230: what = what[:227] + '...'
    if len(needs) > 200: needs = needs[:197] + '...'
    ran = sorted(m.get('checks', {}).keys())
    caught = m.get('caught_by', [])
    missed = [c for c in ran if c not in caught]
    rows.append((name, what, needs, ', '.join(caught) or '-', ', '.join(missed) or '-'))
out = []
out.append("Each change below was written by a fresh sub-agent that saw only the property text and its own scratch")
out.append("worktree (round 1: two changes per property, `<ID>-mK`; rounds 2 and 3: three more per property each,")
out.append("`<ID>-r2mK`, `<ID>-r3mK`, with the descriptions of the earlier rounds given as \"already delivered, find different")
out.append("ones\"; rounds 4 to 6, `<ID>-r4mK` .. `<ID>-r6mK`: up to two per property (twelve, the other eight, then eight again), asked to be *hard to hit* - a rare")
out.append("coincidence, one level, one length, a three-call order; `tools/seed_prompt_template.txt` is what an agent got). Each compiles, passes the unedited 198-test suite (confirmed by me in another scratch worktree with")
out.append("`tools/confirm_mutant.sh`: suite with the patch, demonstration with the patch in debug and release,")
out.append("demonstration without it) and is kept under `/verif/seeded/<name>/` (patch.diff, demo.rs, meta.json). \"caught")
out.append("by\" = quick tier of that check exits 1 with a VIOLATION line against a patched copy of /repo (`tools/")
out.append("try_mutant_iso.sh`, `tools/rerun_seeded.sh`); \"ran, silent\" = checks that were also run and did not see it.")
out.append("Where a change first slipped past the check of its own property the check was strengthened (section 11.2")
out.append("lists what was added); the table shows the state after that. The notes after the table name the changes that")
out.append("were rejected and the one that its own property's check is right not to see.")
out.append("")
out.append("| change | what it breaks | needs | caught by | ran, silent |")
out.append("|---|---|---|---|---|")
for r in rows:
    out.append("| %s | %s | %s | %s | %s |" % r)
out.append("")
out.append("%d changes kept; %d caught by the check of the property they were written against." % (len(rows), sum(1 for r in rows if r[0].split('-')[0] in r[3])))
text = "\n".join(out)
s = open('DESIGN.md').read()
if '(SECTION12)' in s:
    s = s.replace('(SECTION12)', '<!-- S12-BEGIN -->\n' + text + '\n<!-- S12-END -->')
else:
    s = re.sub(r'<!-- S12-BEGIN -->.*?<!-- S12-END -->', lambda m: '<!-- S12-BEGIN -->\n' + text + '\n<!-- S12-END -->', s, flags=re.S)
open('DESIGN.md', 'w').write(s)
print(len(rows), "rows")
