#!/bin/bash
# usage: tools/try_mutant_fuzz.sh <slot> <patch> <PROP> <fuzz target> [runs per job] [jobs]
# runs one libFuzzer campaign (fuzz/run.sh) against a patched scratch copy of /repo; never touches /repo or /verif/fuzz
set -u
SLOT="$1"; PATCH="$(realpath "$2")"; PROP="$3"; T="$4"; RUNS="${5:-200000}"; JOBS="${6:-8}"
R=/tmp/trial/$SLOT
rm -rf "$R"; mkdir -p "$R/target"
git -C /repo worktree prune
git -C /repo worktree add --detach "$R/repo" HEAD -q || exit 2
( cd "$R/repo" && git apply "$PATCH" ) || { echo "PATCH DOES NOT APPLY"; exit 2; }
mkdir -p "$R/fuzz"; cp -r /verif/fuzz/fuzz_targets /verif/fuzz/run.sh /verif/fuzz/Cargo.toml "$R/fuzz/"; cp /verif/Cargo.lock "$R/Cargo.lock"; cp -r /verif/corpus "$R/corpus"
mkdir -p "$R/src"; : > "$R/src/lib.rs"; printf '[package]\nname = "trialroot"\nversion = "0.0.0"\nedition = "2021"\n[workspace]\n' > "$R/Cargo.toml"   # cargo-fuzz wants a parent project
sed -i "s#path = \"/repo/ffuzzy\"#path = \"$R/repo/ffuzzy\"#; s#path = \"../crates/oracle\"#path = \"/verif/crates/oracle\"#" "$R/fuzz/Cargo.toml"
out=$("$R/fuzz/run.sh" "$PROP" "$T" "$RUNS" "$JOBS" 1 2>&1); rc=$?
echo "== $PROP/$T exit=$rc"; echo "$out" | cut -c1-400
git -C /repo worktree remove --force "$R/repo" 2>/dev/null; rm -rf "$R"; git -C /repo worktree prune
exit $rc
