#!/bin/bash
# usage: tools/rerun_seeded.sh [parallelism] [name-glob]  - re-runs the quick tiers against every kept seeded change and refreshes meta.json
set -u
cd "$(dirname "$0")/.."
PAR="${1:-6}"
one() {
  d="$1"; name=$(basename "$d")
  ids=$(python3 -c "
import json,sys
m=json.load(open('$d/meta.json'))
ids=[m['property']]+[k for k in m.get('checks',{}) if k!=m['property']]
print(' '.join(ids))")
  res=$(tools/try_mutant_iso.sh "re-$name" "$d/patch.diff" $ids 2>&1)
  python3 - "$d" "$res" <<'PY'
import json, sys, re
d, res = sys.argv[1], sys.argv[2]
m = json.load(open(d + '/meta.json'))
caught = {}
cur = None
for line in res.splitlines():
    mm = re.match(r"== (C\d+) exit=(\d+)", line)
    if mm: cur = mm.group(1); caught[cur] = {"exit": int(mm.group(2)), "detail": ""}
    elif cur and line.startswith("failure in"): caught[cur]["detail"] = line[:300]
if caught:
    m["checks"] = caught
    m["caught_by"] = [k for k, v in caught.items() if v["exit"] == 1]
    m["rerun_note"] = "checks re-run against the patched copy with the final version of the machinery"
json.dump(m, open(d + '/meta.json', 'w'), indent=1)
print(d, m.get("caught_by"))
PY
  rm -rf "/tmp/trial/re-$name"
  git -C /repo worktree prune
}
export -f one
ls -d seeded/${2:-*}/ | sed 's#/$##' | xargs -P "$PAR" -I{} bash -c 'one {}'
