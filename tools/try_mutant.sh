#!/bin/bash
# usage: tools/try_mutant.sh <patch.diff> <ID>...   - runs quick checks against /repo with the patch applied, then reverts
set -u
P="$(realpath "$1")"; shift
cd /repo || exit 2
[ -z "$(git status --porcelain --untracked-files=no)" ] || { echo "/repo not clean"; exit 2; }
git apply "$P" || { echo "patch does not apply"; exit 2; }
trap 'git -C /repo checkout -- .' EXIT
cd /verif
for id in "$@"; do
  out=$(./check "$id" --tier "${TIER:-quick}" 2>&1); rc=$?
  echo "== $id exit=$rc"
  echo "$out" | grep -E "VIOLATION|failure in|HARNESS|CALIBRATION|BUILD FAILED" | cut -c1-400
done
