#!/bin/bash
# usage: tools/try_mutant_iso.sh <slot> <patch.diff> <ID>...
# Runs the quick checks against a *copy* of /repo with the patch applied (cargo `paths` override, own
# target dir, own VERIF_ROOT), so that /repo, /verif/target and /verif/evidence stay untouched and
# several trials can run in parallel.  Equivalent to: git -C /repo apply; ./check ...; git checkout.
set -u
SLOT="$1"; P="$(realpath "$2")"; shift 2
R=/tmp/trial/$SLOT
mkdir -p "$R"
if [ ! -d "$R/repo" ]; then git -C /repo worktree add --detach "$R/repo" HEAD -q || exit 2; fi
( cd "$R/repo" && git checkout -q --detach "$(git -C /repo rev-parse HEAD)" && git checkout -- . && git apply "$P" ) || { echo "patch does not apply"; exit 2; }
mkdir -p "$R/root/evidence"
ln -sfn /verif/regressions "$R/root/regressions"
ln -sfn /verif/known_findings.json "$R/root/known_findings.json"
ln -sfn "$R/target" "$R/root/target"
cd /verif
export RUSTFLAGS="--cfg a4lg_ffuzzy_verif" CARGO_NET_OFFLINE=true
for prof in release relda; do
  cargo build --profile $prof -p harness --target-dir "$R/target" --config "paths=[\"$R/repo/ffuzzy\"]" > "$R/build.$prof.log" 2>&1 || { echo "BUILD FAILED ($prof)"; grep -E "^error" -A8 "$R/build.$prof.log" | head -30; exit 2; }
done
if echo " $* " | grep -q -E " C14 | C04 "; then
  pids=()
  for c in f-default f-unsafe f-unchecked f-reduce-fnv f-unsafe-reduce-fnv f-strict f-nodefault; do
    for prof in release relda; do
      ( cargo build --profile $prof -p cfgprobe --no-default-features --features $c --target-dir "$R/target-cfg/$c" --config "paths=[\"$R/repo/ffuzzy\"]" > "$R/cfgprobe.$c.$prof.log" 2>&1 || { echo "cfgprobe build failed $c $prof"; exit 1; } ) &
      pids+=($!)
    done
  done
  for p in "${pids[@]}"; do wait $p || { echo "BUILD FAILED (cfgprobe)"; exit 2; }; done
  export FFV_CFG_TARGET="$R/target-cfg"
fi
for id in "$@"; do
  out=$(VERIF_ROOT="$R/root" "$R/target/release/ffv" check "$id" --tier "${TIER:-quick}" 2>&1); rc=$?
  echo "== $id exit=$rc"
  echo "$out" | grep -E "VIOLATION|failure in|HARNESS|CALIBRATION" | cut -c1-400
done
( cd "$R/repo" && git checkout -- . )
