#!/bin/bash
# usage: tools/run_all.sh [tier] [seed]  - runs every registered check once; prints exit code and wall time; validates evidence
cd "$(dirname "$0")/.."
TIER="${1:-quick}"; export VERIF_SEED="${2:-0}"
for id in $(python3 -c "import json; print(' '.join(c['property_id'] for c in json.load(open('MANIFEST.json'))['checks']))"); do
  t0=$(date +%s.%N)
  out=$(./check $id --tier $TIER 2>&1); rc=$?
  t1=$(date +%s.%N)
  v=$(python3-vt -c "
import json, jsonschema, sys
try:
    e=json.load(open('evidence/$id.json')); jsonschema.validate(e, json.load(open('/root/.vp/EVIDENCE.schema.json'))); print('evidence ok', e['coverage']['evaluations'], e['coverage']['distinct_nontrivial'], e['tier'], e['seed'])
except Exception as ex:
    print('EVIDENCE INVALID', str(ex)[:200])
")
  printf "%s exit=%s %.1fs %s\n" $id $rc $(echo "$t1 - $t0" | bc) "$v"
  if [ $rc -ne 0 ]; then echo "$out" | grep -E "VIOLATION|failure|HARNESS|FAILED" | cut -c1-300; fi
done
