#!/bin/bash
# usage: tools/confirm_mutant.sh <dir with patch.diff + demo.rs>
# Confirms in a scratch worktree (outside /repo and /verif): suite passes with the patch, demo fails with it, demo passes without.
set -u
D="$(realpath "$1")"
W=/tmp/mutcheck-${2:-0}
if [ ! -d "$W" ]; then git -C /repo worktree add --detach "$W" HEAD -q || exit 2; fi
cd "$W" || exit 2
git checkout -q --detach "$(git -C /repo rev-parse HEAD)" 2>/dev/null
git checkout -- . ; rm -f ffuzzy/tests/seed_demo.rs
mkdir -p ffuzzy/tests
res="{}"
git apply --check "$D/patch.diff" || { echo "PATCH DOES NOT APPLY"; exit 3; }
git apply "$D/patch.diff"
( cd "$W" && cargo test --workspace --no-fail-fast --offline > $W.suite.log 2>&1 ); suite=$?
passed=$(grep -E "^test result" $W.suite.log | head -1)
cp "$D/demo.rs" ffuzzy/tests/seed_demo.rs
DF=""; if grep -q '"demo_needs_cfg": *true' "$D/meta.json" 2>/dev/null; then DF="--cfg a4lg_ffuzzy_verif"; fi
DEMO_CMD=$(python3 -c "import json,sys; print(json.load(open(sys.argv[1])).get('demo_cmd',''))" "$D/meta.json" 2>/dev/null)
FEAT=$(echo "$DEMO_CMD" | grep -o -- "--features [a-z,+-]*" | head -1)
( cd ffuzzy && RUSTFLAGS="$DF" cargo test --offline $FEAT --test seed_demo > $W.demo1.log 2>&1 ); demo_with=$?
( cd ffuzzy && RUSTFLAGS="$DF" cargo test --release --offline $FEAT --test seed_demo > $W.demo1r.log 2>&1 ); demo_with_rel=$?
git checkout -- .
( cd ffuzzy && RUSTFLAGS="$DF" cargo test --offline $FEAT --test seed_demo > $W.demo0.log 2>&1 ); demo_without=$?
rm -f ffuzzy/tests/seed_demo.rs
echo "suite_exit=$suite ($passed) demo_with_mutant_exit=$demo_with demo_with_mutant_release_exit=$demo_with_rel demo_without_exit=$demo_without"
if [ $suite -eq 0 ] && [ $demo_with -ne 0 ] && [ $demo_without -eq 0 ]; then echo CONFIRMED; exit 0; else echo NOT-CONFIRMED; exit 1; fi
