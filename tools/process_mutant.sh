#!/bin/bash
# usage: tools/process_mutant.sh <ID> <mK> <check ids...>
# confirm in a scratch worktree, run the given checks against a patched copy of /repo, keep under /verif/seeded/<ID>-<mK>/
set -u
ID="$1"; M="$2"; shift 2
SRC=${SEEDROOT:-/tmp/seed}/$ID/_out/$M
DST=/verif/seeded/$ID-${TAG:-}$M
SLOT=$ID-${TAG:-}$M
[ -f "$SRC/patch.diff" ] || { echo "no $SRC/patch.diff"; exit 2; }
conf=$(/verif/tools/confirm_mutant.sh "$SRC" "$SLOT" 2>&1 | tail -2)
echo "$conf"
echo "$conf" | grep -q "^CONFIRMED" || { echo "$ID $M NOT CONFIRMED"; exit 1; }
res=$(/verif/tools/try_mutant_iso.sh "$SLOT" "$SRC/patch.diff" "$@" 2>&1)
echo "$res"
mkdir -p "$DST"
cp "$SRC/patch.diff" "$DST/patch.diff"; cp "$SRC/demo.rs" "$DST/demo.rs"; cp "$SRC/meta.json" "$DST/agent_meta.json"
python3 - "$ID" "$M" "$DST" "$conf" "$res" "$*" <<'PY'
import json, sys, re, os
ID, M, DST, conf, res, checks = sys.argv[1:7]
agent = {}
try: agent = json.load(open(DST + "/agent_meta.json"))
except Exception as e: agent = {"error": str(e)}
caught = {}
cur = None
for line in res.splitlines():
    m = re.match(r"== (C\d+) exit=(\d+)", line)
    if m: cur = m.group(1); caught[cur] = {"exit": int(m.group(2)), "detail": ""}
    elif cur and line.startswith("failure in"): caught[cur]["detail"] = line[:300]
meta = {
  "property": ID, "mutant": os.path.basename(DST),
  "breaks": agent.get("summary", ""),
  "needs_to_manifest": agent.get("needs_to_manifest", ""),
  "confirmed_by_me": conf.splitlines()[0] if conf else "",
  "what_i_ran": ["tools/confirm_mutant.sh (scratch worktree: full suite with the patch, demo with the patch in debug and release, demo without)", "tools/try_mutant_iso.sh <slot> patch.diff " + checks + " (quick tier of the listed checks against a patched copy of /repo)"],
  "checks": caught,
  "caught_by": [k for k, v in caught.items() if v["exit"] == 1],
}
json.dump(meta, open(DST + "/meta.json", "w"), indent=1)
print("KEPT", DST, "caught_by", meta["caught_by"])
PY
# scratch copies are removed as soon as the verdict is recorded
git -C /repo worktree remove --force "/tmp/mutcheck-$SLOT" 2>/dev/null; rm -rf "/tmp/mutcheck-$SLOT" /tmp/mutcheck-$SLOT.*.log
git -C /repo worktree remove --force "/tmp/trial/$SLOT/repo" 2>/dev/null; rm -rf "/tmp/trial/$SLOT"
git -C /repo worktree prune
