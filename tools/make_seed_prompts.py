#!/usr/bin/env python3
"""usage: tools/make_seed_prompts.py <root> <round-word> <ids...>
Creates one scratch worktree of /repo per property under <root>/<ID> and writes <root>/<ID>.prompt.txt, the only
thing a seeding sub-agent gets: the property text, the descriptions of the changes already delivered, the rules.
Nothing from /verif's machinery goes into the prompt."""
import json, glob, subprocess, sys, os
root, word, ids = sys.argv[1], sys.argv[2], sys.argv[3:]
os.makedirs(root, exist_ok=True)
props = {}
for l in open('/verif/properties.jsonl'):
    p = json.loads(l); props[p['id']] = p
tmpl = open(os.path.join(os.path.dirname(__file__), 'seed_prompt_template.txt')).read()
for pid in ids:
    p = props[pid]
    wt = '%s/%s' % (root, pid)
    if not os.path.isdir(wt):
        subprocess.run(['git', '-C', '/repo', 'worktree', 'add', '--detach', wt, 'HEAD', '-q'], check=True)
    prior = []
    for d in sorted(glob.glob('/verif/seeded/%s-*/' % pid)):
        try: m = json.load(open(d + 'agent_meta.json'))
        except Exception: continue
        prior.append("- " + (m.get('summary', '')[:420]).replace('\n', ' '))
    proptext = "Property %s: %s\n\n%s\n\nQuantified over: %s" % (pid, p['title'], p['statement'], p['quantifier']['text'])
    extra = ""
    if pid == 'C13':
        extra = "\n\nSpecial note for this property: your demo MAY use the hook functions Generator::verif_new_with_prefix_zeroes(n) / verif_feed_zeroes(&mut self, n) (state after n (more) zero bytes, constant time): then it is run with RUSTFLAGS=\"--cfg a4lg_ffuzzy_verif\" (record \"demo_needs_cfg\": true in meta.json). The existing suite is still run WITHOUT that flag."
    if pid == 'C14':
        extra = "\n\nSpecial notes for this property: (1) the mutants should live in code that is only compiled, or only behaves differently, under one of the optional feature sets (`unsafe`, `unchecked`, `opt-reduce-fnv-table`, `strict-parser`, no default features) or only without debug assertions, so that the default-feature test suite cannot see them; (2) the existing suite requirement stays as written (default features); (3) your demo.rs is run with the feature set that exposes the mutant: record the exact command in meta.json under \"demo_cmd\", e.g. `cargo test --offline --release --features unsafe --test seed_demo`; it must fail with the mutant and pass without; compare against literal expected values obtained from the unmodified default build."
    t = tmpl.replace('@ROOT@', root).replace('@ROUND@', word).replace('@ID@', pid).replace('@PROPERTY@', proptext).replace('@PRIOR@', "\n".join(prior)).replace('@EXTRA@', extra)
    open('%s/%s.prompt.txt' % (root, pid), 'w').write(t)
    print(pid, len(t))
