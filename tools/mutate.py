#!/usr/bin/env python3
"""Mechanical mutation sweep over the library's non-test sources (a complement to the hand-written seeded changes).

  tools/mutate.py list   [--seed N] [--per-file K]        -> mutation/sites.json (sampled single-token mutants)
  tools/mutate.py suite  --slots 6                        -> which mutants survive the repository's own test suite
                                                             (scratch worktrees /tmp/mut/wK, removed afterwards)
  tools/mutate.py checks [--par 2]                        -> runs the quick checks mapped to the mutated file against
                                                             every survivor (tools/try_mutant_iso.sh), first catch wins
  tools/mutate.py report                                  -> mutation/REPORT.md

Nothing here touches /repo's working tree; survivors are kept as patches under mutation/survivors/.
"""
import json, os, re, subprocess, sys, random, hashlib, threading, queue, shutil, time

ROOT = '/verif/mutation'
SRC = '/repo/ffuzzy/src'
FILES = {
    'internals/generate.rs': ['C01', 'C03', 'C12', 'C13'],
    'internals/generate/hashes/rolling_hash.rs': ['C19', 'C01'],
    'internals/generate/hashes/partial_fnv.rs': ['C19', 'C01'],
    'internals/generate_easy.rs': ['C03', 'C01'],
    'internals/generate_easy_std.rs': ['C18', 'C03'],
    'internals/hash.rs': ['C04', 'C05', 'C11', 'C15', 'C16', 'C06', 'C02'],
    'internals/hash/algorithms.rs': ['C04', 'C06', 'C05', 'C11', 'C07'],
    'internals/hash/block.rs': ['C20', 'C10', 'C04', 'C02'],
    'internals/hash/parser_state.rs': ['C04'],
    'internals/hash_dual.rs': ['C07', 'C11', 'C15', 'C16', 'C04'],
    'internals/compare.rs': ['C02', 'C10', 'C17', 'C20', 'C11'],
    'internals/compare/position_array.rs': ['C08', 'C09', 'C17', 'C02', 'C11'],
    'internals/compare_easy.rs': ['C02'],
    'internals/base64.rs': ['C04', 'C05'],
    'internals/intrinsics.rs': ['C20', 'C10'],
    'internals/utils.rs': ['C20', 'C04'],
}

OPS = [
    (r' <= ', ' < '), (r' < ', ' <= '), (r' >= ', ' > '), (r' > ', ' >= '),
    (r' == ', ' != '), (r' != ', ' == '),
    (r' && ', ' || '), (r' \|\| ', ' && '),
    (r' \+ ', ' - '), (r' - ', ' + '),
    (r' \+= ', ' -= '), (r' -= ', ' += '),
    (r' & ', ' | '), (r' \| ', ' & '),
    (r' << ', ' >> '), (r' >> ', ' << '),
    (r'wrapping_add', 'wrapping_sub'), (r'wrapping_sub', 'wrapping_add'),
    (r'::min\(', '::max('), (r'::max\(', '::min('),
    (r'\btrue\b', 'false'), (r'\bfalse\b', 'true'),
    (r' \+ 1\b', ' + 2'), (r' - 1\b', ' - 2'), (r' \+ 1\b', ''), (r' - 1\b', ''),
    (r'\b0\.\.', '1..'), (r'\.\.=', '..'),
]
if os.environ.get('MUT_OPSET') == '2':
    # second operator set: confusions between twin identifiers (block hash 1 / 2, short / long, start / end)
    ROOT = '/verif/mutation2'
    OPS = [
        (r'\bblockhash1\b', 'blockhash2'), (r'\bblockhash2\b', 'blockhash1'),
        (r'\blen_blockhash1\b', 'len_blockhash2'), (r'\blen_blockhash2\b', 'len_blockhash1'),
        (r'\bblock_hash_1\b', 'block_hash_2'), (r'\bblock_hash_2\b', 'block_hash_1'),
        (r'\bblock_hash_1_len\b', 'block_hash_2_len'), (r'\bblock_hash_2_len\b', 'block_hash_1_len'),
        (r'\brle_block1\b', 'rle_block2'), (r'\brle_block2\b', 'rle_block1'),
        (r'\bHALF_SIZE\b', 'FULL_SIZE'), (r'\bFULL_SIZE\b', 'HALF_SIZE'),
        (r'\bbhidx_start\b', 'bhidx_end'), (r'\bbhidx_end\b', 'bhidx_start'),
        (r'\bh_full\b', 'h_half'), (r'\bh_half\b', 'h_full'),
        (r'\bbh_curr!\(\)', 'bh_next!()'), (r'\bbh_next!\(\)', 'bh_curr!()'),
        (r'\bS1\b', 'S2'), (r'\bS2\b', 'S1'),
        (r'\bh1\b', 'h2'), (r'\bh2\b', 'h3'), (r'\bh3\b', 'h1'),
        (r'\blhs\b', 'rhs'), (r'\brhs\b', 'lhs'),
        (r'\bself\.len\(\)', 'other.len() as u8'),
    ]
SKIP_LINE = re.compile(r'^\s*(//|#\[|#!\[|use |pub use |debug_assert|invariant!|const_assert|static_assert|\*|/\*)|debug_assert|invariant!|optionally_unsafe|cfg_if|grcov|macro_rules')
DELETABLE = re.compile(r'^\s*[A-Za-z_\$][A-Za-z0-9_\.\$\[\]\(\)&\*: ]*\.(fill|reset|clear|copy_from_slice|clone_from_slice)\(.*\);\s*$|^\s*(self|\$self)\.[a-z_0-9\.]+ (=|\+=|-=) .*;\s*$')


def code_lines(path):
    """(index, line) of lines that are library code under default features (approximation)."""
    lines = open(path).read().split('\n')
    out = []
    skip_depth = None
    depth = 0
    pending_cfg = False
    in_block_comment = False
    for i, l in enumerate(lines):
        s = l.strip()
        if in_block_comment:
            if '*/' in s: in_block_comment = False
            continue
        if s.startswith('/*') and '*/' not in s:
            in_block_comment = True
            continue
        opens, closes = l.count('{'), l.count('}')
        if skip_depth is None and re.search(r'cfg\((all\()?(feature = "(unsafe|unchecked|strict-parser|opt-reduce-fnv-table|nightly|unstable)"|test|a4lg_ffuzzy_verif|doc)', s) and 'not(' not in s:
            pending_cfg = True
        if pending_cfg and skip_depth is None and opens > closes:
            skip_depth = depth
            pending_cfg = False
        depth += opens - closes
        if skip_depth is not None:
            if depth <= skip_depth:
                skip_depth = None
            continue
        if pending_cfg and s.endswith(';'):
            pending_cfg = False
            continue
        if not s or SKIP_LINE.search(l):
            continue
        out.append((i, l))
    return lines, out


def strip_comment(l):
    p = l.find('//')
    return l if p < 0 else l[:p]


def sites_of(rel):
    path = os.path.join(SRC, rel)
    lines, code = code_lines(path)
    sites = []
    for i, l in code:
        body = strip_comment(l)
        if '"' in body or "'" in body and re.search(r"'[^']'", body):
            # string / char literals: leave alone (format strings, error texts)
            if '"' in body:
                continue
        for pat, rep in OPS:
            for m in re.finditer(pat, body):
                new = body[:m.start()] + rep + body[m.end():] + l[len(body):]
                if new != l:
                    sites.append({'file': rel, 'line': i + 1, 'col': m.start(), 'op': '%s -> %s' % (pat, rep), 'old': l, 'new': new})
        if DELETABLE.match(body):
            sites.append({'file': rel, 'line': i + 1, 'col': 0, 'op': 'delete statement', 'old': l, 'new': re.match(r'^\s*', l).group(0) + '// (statement removed)'})
    return sites


def cmd_list(args):
    seed = 1; per = 40
    if '--seed' in args: seed = int(args[args.index('--seed') + 1])
    if '--per-file' in args: per = int(args[args.index('--per-file') + 1])
    os.makedirs(ROOT, exist_ok=True)
    allsites = []
    for rel in FILES:
        if not os.path.exists(os.path.join(SRC, rel)):
            continue
        s = sites_of(rel)
        rnd = random.Random(seed * 1000003 + int(hashlib.sha1(rel.encode()).hexdigest()[:8], 16))
        rnd.shuffle(s)
        quota = per if len(s) > per else len(s)
        # bigger files get more
        quota = min(len(s), max(per, len(s) // 6))
        pick = sorted(s[:quota], key=lambda x: (x['line'], x['col'], x['op']))
        print('%-50s %5d sites, %4d sampled' % (rel, len(s), len(pick)))
        allsites += pick
    for k, s in enumerate(allsites):
        s['id'] = 'M%04d' % k
    json.dump(allsites, open(os.path.join(ROOT, 'sites.json'), 'w'), indent=0)
    print(len(allsites), 'mutants listed')


def run_stream_kill(cmd, cwd, timeout):
    """run; kill at the first failing test; returns ('pass'|'fail'|'nocompile'|'timeout', tail)"""
    p = subprocess.Popen(cmd, cwd=cwd, stdout=subprocess.PIPE, stderr=subprocess.STDOUT, text=True, shell=True, preexec_fn=os.setsid)
    t0 = time.time()
    tail = []
    verdict = None
    import select
    while True:
        r, _, _ = select.select([p.stdout], [], [], 1.0)
        if r:
            line = p.stdout.readline()
            if not line:
                break
            tail.append(line.rstrip()); tail = tail[-15:]
            if '... FAILED' in line or 'panicked at' in line or 'test result: FAILED' in line:
                verdict = 'fail'
            if line.startswith('error') and 'could not compile' in line or line.startswith('error['):
                verdict = 'nocompile'
            if verdict:
                try: os.killpg(p.pid, 9)
                except Exception: pass
                break
        if time.time() - t0 > timeout:
            verdict = 'timeout'
            try: os.killpg(p.pid, 9)
            except Exception: pass
            break
        if p.poll() is not None and not r:
            break
    p.wait()
    if verdict is None:
        verdict = 'pass' if p.returncode == 0 else 'fail'
    return verdict, tail


def cmd_suite(args):
    slots = 6
    if '--slots' in args: slots = int(args[args.index('--slots') + 1])
    sites = json.load(open(os.path.join(ROOT, 'sites.json')))
    resf = os.path.join(ROOT, 'suite_results.json')
    results = json.load(open(resf)) if os.path.exists(resf) else {}
    os.makedirs(os.path.join(ROOT, 'survivors'), exist_ok=True)
    q = queue.Queue()
    for s in sites:
        if s['id'] not in results:
            q.put(s)
    lock = threading.Lock()

    def worker(k):
        w = '/tmp/mut/w%d' % k
        if not os.path.isdir(w):
            subprocess.run(['git', '-C', '/repo', 'worktree', 'add', '--detach', w, 'HEAD', '-q'], check=True)
        while True:
            try: s = q.get_nowait()
            except queue.Empty: break
            subprocess.run(['git', '-C', w, 'checkout', '-q', '--', '.'])
            path = os.path.join(w, 'ffuzzy/src', s['file'])
            lines = open(path).read().split('\n')
            assert lines[s['line'] - 1] == s['old'], (s['id'], 'source moved')
            lines[s['line'] - 1] = s['new']
            open(path, 'w').write('\n'.join(lines))
            v, tail = run_stream_kill('cargo test --offline --lib -q 2>&1', os.path.join(w, 'ffuzzy'), 900)
            if v == 'pass':
                v2, tail = run_stream_kill('cargo test --offline --doc -q 2>&1', os.path.join(w, 'ffuzzy'), 900)
                if v2 != 'pass':
                    v = 'fail(doctest)' if v2 == 'fail' else v2
            if v == 'pass':
                d = subprocess.run(['git', '-C', w, 'diff', '--', 'ffuzzy/src'], capture_output=True, text=True).stdout
                open(os.path.join(ROOT, 'survivors', s['id'] + '.diff'), 'w').write(d)
            with lock:
                results[s['id']] = {'verdict': v, 'tail': tail[-3:] if v not in ('pass',) else []}
                json.dump(results, open(resf, 'w'), indent=0)
                n = len(results)
            print('%s %-28s %s:%d %s' % (s['id'], v, s['file'], s['line'], s['op']), '[%d/%d]' % (n, len(sites)), flush=True)
        subprocess.run(['git', '-C', w, 'checkout', '-q', '--', '.'])

    ths = [threading.Thread(target=worker, args=(k,)) for k in range(slots)]
    for t in ths: t.start()
    for t in ths: t.join()
    for k in range(slots):
        w = '/tmp/mut/w%d' % k
        subprocess.run(['git', '-C', '/repo', 'worktree', 'remove', '--force', w])
        shutil.rmtree(w, ignore_errors=True)
    subprocess.run(['git', '-C', '/repo', 'worktree', 'prune'])
    from collections import Counter
    print(Counter(v['verdict'] for v in results.values()))


def cmd_checks(args):
    par = 2
    if '--par' in args: par = int(args[args.index('--par') + 1])
    sites = {s['id']: s for s in json.load(open(os.path.join(ROOT, 'sites.json')))}
    suite = json.load(open(os.path.join(ROOT, 'suite_results.json')))
    resf = os.path.join(ROOT, 'check_results.json')
    results = json.load(open(resf)) if os.path.exists(resf) else {}
    todo = [i for i, v in sorted(suite.items()) if v['verdict'] == 'pass' and i not in results]
    q = queue.Queue()
    for i in todo: q.put(i)
    lock = threading.Lock()

    def worker(k):
        while True:
            try: i = q.get_nowait()
            except queue.Empty: break
            s = sites[i]
            ids = FILES[s['file']]
            caught = None; ran = []; detail = ''
            for pid in ids:
                out = subprocess.run(['/verif/tools/try_mutant_iso.sh', 'mutw%d' % k, os.path.join(ROOT, 'survivors', i + '.diff'), pid], capture_output=True, text=True).stdout
                m = re.search(r'== (C\d+) exit=(\d+)', out)
                rc = int(m.group(2)) if m else -1
                ran.append((pid, rc))
                if rc == 1:
                    caught = pid
                    f = [l for l in out.splitlines() if l.startswith('failure in')]
                    detail = f[0][:300] if f else ''
                    break
                if rc not in (0, 1):
                    detail = out[-400:]
            with lock:
                results[i] = {'caught_by': caught, 'ran': ran, 'detail': detail}
                json.dump(results, open(resf, 'w'), indent=0)
            print(i, s['file'], s['line'], s['op'], '->', caught, ran, flush=True)

    ths = [threading.Thread(target=worker, args=(k,)) for k in range(par)]
    for t in ths: t.start()
    for t in ths: t.join()
    for k in range(par):
        subprocess.run(['git', '-C', '/repo', 'worktree', 'remove', '--force', '/tmp/trial/mutw%d/repo' % k])
        shutil.rmtree('/tmp/trial/mutw%d' % k, ignore_errors=True)
    subprocess.run(['git', '-C', '/repo', 'worktree', 'prune'])


def cmd_report(args):
    sites = {s['id']: s for s in json.load(open(os.path.join(ROOT, 'sites.json')))}
    suite = json.load(open(os.path.join(ROOT, 'suite_results.json')))
    checks = json.load(open(os.path.join(ROOT, 'check_results.json'))) if os.path.exists(os.path.join(ROOT, 'check_results.json')) else {}
    notes = json.load(open(os.path.join(ROOT, 'notes.json'))) if os.path.exists(os.path.join(ROOT, 'notes.json')) else {}
    from collections import Counter
    c = Counter(v['verdict'] for v in suite.values())
    out = ['# Mechanical mutation sweep', '',
           '%d single-token mutants sampled from %d files (`tools/mutate.py list`); verdicts of the repository\'s own suite: %s.' % (len(sites), len(FILES), dict(c)), '',
           'Survivors of the suite, and the first quick check (in the order mapped to the file) that reports a violation:', '',
           '| id | site | change | caught by | note |', '|---|---|---|---|---|']
    nc = 0; ns = 0
    for i, v in sorted(suite.items()):
        if v['verdict'] != 'pass': continue
        ns += 1
        s = sites[i]; r = checks.get(i, {})
        cb = r.get('caught_by')
        if cb: nc += 1
        out.append('| %s | %s:%d | `%s` -> `%s` | %s | %s |' % (i, s['file'].replace('internals/', ''), s['line'], s['old'].strip()[:70].replace('|', '\\|'), s['new'].strip()[:70].replace('|', '\\|'), cb or ('**none** (ran %s)' % ','.join(p for p, _ in r.get('ran', []))), notes.get(i, '')))
    out += ['', '%d survivors of the suite; %d caught by a quick check; %d not caught (see notes: equivalent / outside every property / gap).' % (ns, nc, ns - nc)]
    open(os.path.join(ROOT, 'REPORT.md'), 'w').write('\n'.join(out) + '\n')
    print('\n'.join(out[-1:]))


if __name__ == '__main__':
    {'list': cmd_list, 'suite': cmd_suite, 'checks': cmd_checks, 'report': cmd_report}[sys.argv[1]](sys.argv[2:])
